#!/usr/bin/env python3
"""C20 (and the C-encoder clause of C13): the PAM module succeeds only on an explicit OK.

Compiles /repo/pam/pam_whawty.c to LLVM IR (clang-14 -O0, stub PAM headers) on every run and
executes _whawty_check_password symbolically (llsym) against a scripted, nondeterministic
socket environment. Every obligation is discharged by z3; counterexamples are replayed against
the natively compiled module (ASan) talking to a scripted socketpair server.
"""
import os, sys, json, time, subprocess, tempfile, shutil, argparse, itertools, re
HERE = os.path.dirname(os.path.abspath(__file__))
sys.path.insert(0, HERE)
import z3
import llsym
from llsym import Ptr, NULL, Violation, PathEnd

EINTR, ETIMEDOUT, EMFILE, ECONNREFUSED = 4, 110, 24, 111
PAM_SUCCESS, PAM_AUTH_ERR, PAM_AUTHINFO_UNAVAIL = 0, 7, 9
MAXPART = 256

def bv(v, n): return z3.BitVecVal(v, n)

class Stubs:
    """libc / syscall stubs. The environment script lives in st.env:
       socket_ok, connect_ok: bools
       write_plan: list of per-call results: 'all' | 'short' | 'err' | 'zero' (default 'all' when exhausted)
       wselect: list of per-call results for select in the write phase: 1 | 0 | -1 (default 1)
       reads: list of events consumed by select/read in the read phase:
              ('data', k)  deliver the next k reply bytes | ('eintr',) select interrupted |
              ('silence',) timeout | ('close',) peer closed (persistent) | ('err',) read error
       reply: list of z3 bytes the server sends
    """
    override = {"@_whawty_logf"}

    def call(self, eng, st, name, args, worklist):
        f = getattr(self, "s_" + name[1:].replace(".", "_"), None)
        if f is None:
            raise ValueError("no stub for " + name)
        return f(eng, st, [a for _, a in args], worklist)

    # --- helpers ---
    def errno_ptr(self, eng, st):
        for rid, r in st.regions.items():
            if r.name == "errno":
                return Ptr(rid, 0)
        raise ValueError("errno region missing")

    def set_errno(self, eng, st, v):
        eng.store(st, self.errno_ptr(eng, st), "i32", bv(v, 32))

    def cstr(self, eng, st, p, limit=1 << 20):
        """bytes of the NUL-terminated string at p (terminator must be a concrete 0 byte; symbolic bytes are non-NUL by construction)"""
        out = []
        r = eng.check_access(st, p, 1, "string read")
        i = p.off
        while True:
            if i >= r.size:
                raise Violation("memory", "string read past the end of %s (missing terminator)" % r.name)
            b = r.data[i]
            if b is None:
                raise Violation("memory", "string read of uninitialised byte in %s" % r.name)
            b = z3.simplify(b)
            if z3.is_bv_value(b) and b.as_long() == 0:
                return out
            out.append(b)
            i += 1
            if len(out) > limit:
                raise Violation("unbounded", "unterminated string")

    # --- stubs ---
    def s__whawty_logf(self, eng, st, a, wl): return None
    def s___errno_location(self, eng, st, a, wl): return self.errno_ptr(eng, st)
    def s_socket(self, eng, st, a, wl):
        st.trace.append("socket")
        if st.env["socket_ok"]:
            return bv(3, 32)
        self.set_errno(eng, st, EMFILE)
        return bv(-1 & 0xffffffff, 32)
    def s_connect(self, eng, st, a, wl):
        st.trace.append("connect")
        if st.env["connect_ok"]:
            return bv(0, 32)
        self.set_errno(eng, st, ECONNREFUSED)
        return bv(-1 & 0xffffffff, 32)
    def s_close(self, eng, st, a, wl): return bv(0, 32)
    def s_strerror(self, eng, st, a, wl):
        rid = eng.new_region(st, 6, "strerror")
        st.regions[rid].data = [bv(c, 8) for c in b"error\0"]
        return Ptr(rid, 0)
    def s_htons(self, eng, st, a, wl):
        v = a[0]
        return z3.simplify(z3.Concat(z3.Extract(7, 0, v), z3.Extract(15, 8, v)))
    s_ntohs = s_htons
    def s_strlen(self, eng, st, a, wl):
        return bv(len(self.cstr(eng, st, a[0])), 64)
    def s_strncmp(self, eng, st, a, wl):
        n = z3.simplify(a[2]).as_long()
        x, y = a[0], a[1]
        eq = z3.BoolVal(True)
        cont = z3.BoolVal(True)   # still comparing (no NUL seen, all equal so far)
        for i in range(n):
            bx = eng.load_bytes(st, Ptr(x.region, x.off + i), 1)[0]
            by = eng.load_bytes(st, Ptr(y.region, y.off + i), 1)[0]
            eq = z3.And(eq, z3.Or(z3.Not(cont), bx == by))
            cont = z3.And(cont, bx == by, bx != 0)
            if z3.is_false(z3.simplify(cont)):
                break
        return z3.If(z3.simplify(eq), bv(0, 32), bv(1, 32))
    def s_memcmp(self, eng, st, a, wl):
        n = eng.concretize(st, a[2], wl)
        eq = z3.BoolVal(True)
        for i in range(n):
            bx = eng.load_bytes(st, Ptr(a[0].region, a[0].off + i), 1)[0]
            by = eng.load_bytes(st, Ptr(a[1].region, a[1].off + i), 1)[0]
            eq = z3.And(eq, bx == by)
        return z3.If(z3.simplify(eq), bv(0, 32), bv(1, 32))
    def s_memcpy(self, eng, st, a, wl):
        n = eng.concretize(st, a[2], wl)
        if n:
            eng.store_bytes(st, a[0], eng.load_bytes(st, a[1], n))
        return a[0]
    s_llvm_memcpy_p0i8_p0i8_i64 = s_memcpy
    def s_strcmp(self, eng, st, a, wl):
        x, y = self.cstr(eng, st, a[0]), self.cstr(eng, st, a[1])
        if len(x) != len(y):
            return bv(1, 32)
        eq = z3.And([p == q for p, q in zip(x, y)]) if x else z3.BoolVal(True)
        return z3.If(z3.simplify(eq), bv(0, 32), bv(1, 32))
    def s_strdup(self, eng, st, a, wl):
        src = self.cstr(eng, st, a[0])
        rid = eng.new_region(st, len(src) + 1, "strdup", heap=True)
        st.regions[rid].data = src + [bv(0, 8)]
        return Ptr(rid, 0)
    def s_free(self, eng, st, a, wl):
        p = a[0]
        if p.region == 0:
            return None
        r = st.regions.get(p.region)
        if r is not None and r.foreign:
            raise Violation("memory", "free of memory the module does not own (%s)" % r.name)
        if r is None or r.freed or not r.heap or p.off != 0:
            raise Violation("memory", "invalid or double free")
        r.freed = True
        return None
    # --- libpam (entry-level scenarios): the items live in memory the module does not own ---
    def s_pam_get_user(self, eng, st, a, wl):
        st.trace.append("pam_get_user")
        if not st.env.get("get_user_ok", True):
            return bv(3, 32)   # PAM_SERVICE_ERR
        eng.store(st, a[1], "i8*", Ptr(st.env["user_rid"], 0))
        return bv(0, 32)
    def s_pam_get_item(self, eng, st, a, wl):
        kind = st.env.get("authtok", "present")
        st.trace.append("pam_get_item(AUTHTOK)=" + kind)
        if kind == "err":
            return bv(4, 32)   # PAM_SYSTEM_ERR
        eng.store(st, a[2], "i8*", Ptr(st.env["authtok_rid"], 0) if kind == "present" else NULL)
        return bv(0, 32)
    def s_pam_prompt(self, eng, st, a, wl):
        kind = st.env.get("prompt", "ok")
        st.trace.append("pam_prompt=" + kind)
        if kind == "err":
            return bv(19, 32)  # PAM_CONV_ERR
        if kind == "again":
            return bv(30, 32)  # PAM_CONV_AGAIN
        if kind == "null":
            eng.store(st, a[2], "i8*", NULL)
            return bv(0, 32)
        src = list(st.env["pw_bytes"])
        rid = eng.new_region(st, len(src) + 1, "prompt response", heap=True)   # the module owns (and frees) the response
        st.regions[rid].data = src + [bv(0, 8)]
        eng.store(st, a[2], "i8*", Ptr(rid, 0))
        return bv(0, 32)
    def s_pam_set_item(self, eng, st, a, wl):
        st.trace.append("pam_set_item")
        return bv(0 if st.env.get("set_item_ok", True) else 5, 32)
    def s_pam_strerror(self, eng, st, a, wl):
        return self.s_strerror(eng, st, a, wl)
    def s_atoi(self, eng, st, a, wl):
        bs = self.cstr(eng, st, a[0])
        if not all(z3.is_bv_value(z3.simplify(b)) for b in bs):
            raise ValueError("atoi on symbolic text")
        t = bytes(z3.simplify(b).as_long() for b in bs).decode("latin1")
        mm = re.match(r"[ \t\n\v\f\r]*([+-]?)(\d*)", t)
        v = int(mm.group(2) or "0")
        if mm.group(1) == "-":
            v = -v
        return bv(v & 0xffffffff, 32)
    def s_snprintf(self, eng, st, a, wl):
        dst, size = a[0], z3.simplify(a[1]).as_long()
        fmt = bytes(b.as_long() for b in self.cstr(eng, st, a[2]))
        if fmt != b"%s":
            raise ValueError("snprintf format %r not modelled" % fmt)
        src = self.cstr(eng, st, a[3])
        out = src[:max(0, size - 1)] + [bv(0, 8)]
        if size > 0:
            eng.store_bytes(st, dst, out)
        return bv(len(src), 32)
    def s_llvm_memset_p0i8_i64(self, eng, st, a, wl):
        n = z3.simplify(a[2]).as_long()
        eng.store_bytes(st, a[0], [z3.simplify(a[1])] * n)
        return None
    def s_select(self, eng, st, a, wl):
        env = st.env
        if isinstance(a[4], Ptr) and a[4].region != 0:
            sec = z3.simplify(eng.load(st, a[4], "i64"))
            if z3.is_bv_value(sec) and sec.as_signed_long() < 0:
                # select(2): EINVAL for a negative timeout - every time
                self.set_errno(eng, st, 22)
                st.trace.append("select=-1/EINVAL")
                return bv(-1 & 0xffffffff, 32)
        readphase = isinstance(a[1], Ptr) and a[1].region != 0
        if not readphase:
            plan = env["wselect"]
            r = plan.pop(0) if plan else 1
            st.trace.append("select(w)=%d" % r)
            if r < 0:
                self.set_errno(eng, st, EINTR)
            return bv(r & 0xffffffff, 32)
        ev = env["reads"][0] if env["reads"] else ("close",)
        if ev[0] == "eintr":
            env["reads"].pop(0)
            self.set_errno(eng, st, EINTR)
            st.trace.append("select(r)=-1/EINTR")
            return bv(-1 & 0xffffffff, 32)
        if ev[0] == "silence":
            st.trace.append("select(r)=0")
            return bv(0, 32)   # persistent: the peer stays silent
        st.trace.append("select(r)=1")
        return bv(1, 32)
    def s___ctype_b_loc(self, eng, st, a, wl):
        """glibc: pointer to a pointer into the middle of the 384-entry character-class table ("C" locale),
        valid for indices -128..255"""
        for rid, r in st.regions.items():
            if r.name == "ctype_b_loc":
                return Ptr(rid, 0)
        tab = eng.new_region(st, 384 * 2, "ctype_b table")
        data = []
        for c in range(-128, 256):
            v = 0
            if 0 <= c < 128:
                ch = chr(c)
                up, lowr, dig = "A" <= ch <= "Z", "a" <= ch <= "z", "0" <= ch <= "9"
                xd = dig or "a" <= ch <= "f" or "A" <= ch <= "F"
                sp = ch in " \t\n\v\f\r"
                pr = 32 <= c < 127
                gr = 33 <= c < 127
                bl = ch in " \t"
                cn = c < 32 or c == 127
                al = up or lowr
                pu = gr and not (al or dig)
                for bit, on in enumerate([up, lowr, al, dig, xd, sp, pr, gr, bl, cn, pu, al or dig]):
                    if on:
                        v |= ((1 << bit) << 8) if bit < 8 else ((1 << bit) >> 8)
            data += [bv(v & 0xff, 8), bv(v >> 8, 8)]
        st.regions[tab].data = data
        st.regions[tab].table = True
        st.regions[tab].foreign = True
        loc = eng.new_region(st, 8, "ctype_b_loc")
        eng.store(st, Ptr(loc, 0), "i8*", Ptr(tab, 128 * 2))
        st.regions[loc].foreign = True
        return Ptr(loc, 0)
    def s_recv(self, eng, st, a, wl):
        flags = z3.simplify(a[3]).as_long()
        if flags == 0:
            return self.s_read(eng, st, a[:3], wl)
        if flags != 0x100:
            raise ValueError("recv flags %#x not modelled" % flags)
        # MSG_WAITALL: block until the whole request is satisfied, the peer closes, or an error / signal
        n = z3.simplify(a[2]).as_long()
        env = st.env
        total = 0
        while total < n:
            ev = env["reads"][0] if env["reads"] else ("close",)
            if ev[0] == "data" and len(env["reply"]) - env["rpos"] > 0:
                k = min(ev[1], n - total, len(env["reply"]) - env["rpos"])
                chunk = env["reply"][env["rpos"]:env["rpos"] + k]
                env["rpos"] += k
                if ev[1] - k > 0:
                    env["reads"][0] = ("data", ev[1] - k)
                else:
                    env["reads"].pop(0)
                eng.store_bytes(st, Ptr(a[1].region, a[1].off + total), chunk)
                st.delivered.extend(chunk)
                total += k
                continue
            if ev[0] == "silence":
                raise Violation("unbounded", "recv(MSG_WAITALL) blocks without a time limit while the peer stays silent after %d of %d bytes" % (total, n))
            if ev[0] in ("err", "eintr"):
                env["reads"].pop(0)
                if total == 0:
                    self.set_errno(eng, st, 104 if ev[0] == "err" else EINTR)
                    st.trace.append("recv=-1")
                    return bv(-1 & (2**64 - 1), 64)
                break
            break   # close (or data exhausted): what arrived so far
        st.trace.append("recv=%d" % total)
        return bv(total, 64)
    def s_write(self, eng, st, a, wl):
        n = z3.simplify(a[2]).as_long()
        data = eng.load_bytes(st, a[1], n) if n > 0 else []
        plan = st.env["write_plan"]
        how = plan.pop(0) if plan else "all"
        if how == "err":
            self.set_errno(eng, st, 32)
            st.trace.append("write=-1")
            return bv(-1 & (2**64 - 1), 64)
        if how == "zero":
            st.trace.append("write=0")
            return bv(0, 64)
        k = n if how == "all" or n <= 1 else n - 1
        st.written.extend(data[:k])
        st.trace.append("write=%d/%d" % (k, n))
        return bv(k, 64)
    def s_read(self, eng, st, a, wl):
        n = z3.simplify(a[2]).as_long()
        env = st.env
        ev = env["reads"][0] if env["reads"] else ("close",)
        if ev[0] == "err":
            env["reads"].pop(0)
            self.set_errno(eng, st, 104)
            st.trace.append("read=-1")
            return bv(-1 & (2**64 - 1), 64)
        if ev[0] == "close":
            st.trace.append("read=0")
            return bv(0, 64)    # persistent end of stream; errno untouched (as read(2) does)
        if ev[0] != "data":
            raise ValueError("read with event " + str(ev))
        k = min(ev[1], n, len(env["reply"]) - env["rpos"])
        if k <= 0:
            # nothing left to send but the script says data: treat as close
            st.trace.append("read=0")
            return bv(0, 64)
        chunk = env["reply"][env["rpos"]:env["rpos"] + k]
        env["rpos"] += k
        if ev[1] - k > 0 and n >= k:
            env["reads"][0] = ("data", ev[1] - k)
        else:
            env["reads"].pop(0)
        eng.store_bytes(st, a[1], chunk)
        st.delivered.extend(chunk)
        st.trace.append("read=%d" % k)
        return bv(k, 64)

def compile_ir(repo, workdir):
    inc = os.path.join(HERE, "include")
    out = os.path.join(workdir, "pam.ll")
    subprocess.check_call(["clang-14", "-S", "-emit-llvm", "-O0", "-Xclang", "-disable-O0-optnone", "-I", inc, "-o", out, os.path.join(repo, "pam", "pam_whawty.c")],
                          stderr=subprocess.DEVNULL)
    return open(out).read()

def sym_string(name, n):
    return [z3.BitVec("%s_%d" % (name, i), 8) for i in range(n)]

def initial_state(eng, mod, ulen, plen, env, errno0):
    st = llsym.State()
    st.env = env
    rid = eng.new_region(st, 4, "errno")
    eng.store(st, Ptr(rid, 0), "i32", errno0)
    ub, pb = sym_string("user", ulen), sym_string("pw", plen)
    for b in ub + pb:
        st.pc.append(b != 0)
    ur = eng.new_region(st, ulen + 1, "username")
    st.regions[ur].data = ub + [bv(0, 8)]
    pr = eng.new_region(st, plen + 1, "password")
    st.regions[pr].data = pb + [bv(0, 8)]
    sp = eng.new_region(st, 2, "sockpath")
    st.regions[sp].data = [bv(ord("x"), 8), bv(0, 8)]
    ctx_t = "%struct.whawty_ctx_t"
    cr = eng.new_region(st, mod.sizeof(ctx_t), "ctx")
    offs, _ = mod.struct_layout(ctx_t)
    fields = mod.struct_fields(ctx_t)   # { i32 flags, pamh*, i8* username, i8* password, i8* sockpath, i32 sock, i32 timeout }
    ctx = Ptr(cr, 0)
    eng.store(st, Ptr(cr, offs[0]), "i32", bv(0, 32))
    eng.store(st, Ptr(cr, offs[1]), "i8*", NULL)
    eng.store(st, Ptr(cr, offs[2]), "i8*", Ptr(ur, 0))
    eng.store(st, Ptr(cr, offs[3]), "i8*", Ptr(pr, 0))
    eng.store(st, Ptr(cr, offs[4]), "i8*", Ptr(sp, 0))
    eng.store(st, Ptr(cr, offs[5]), "i32", bv(-1 & 0xffffffff, 32))
    eng.store(st, Ptr(cr, offs[6]), "i32", bv(3, 32))
    fn = mod.funcs["@_whawty_check_password"]
    fr = llsym.Frame(fn)
    fr.env[fn.params[0][1]] = ctx
    st.frames.append(fr)
    return st, ub, pb

ENTRY_OPTIONS = [[], ["debug"], ["use_first_pass"], ["try_first_pass"], ["not_set_pass"], ["use_first_pass", "debug"],
                 ["try_first_pass", "not_set_pass"], ["sock=/x"], ["sock="], ["sock=/a", "sock=/b"], ["timeout=5"], ["timeout=0"],
                 ["timeout=-1"], ["timeout="], ["timeout=abc"], ["timeout=007"], ["timeout=-2147483648"], ["bogus"], ["use_first_pass", "timeout=-1"]]

def entry_scenarios(tier):
    """scenarios entering at pam_sm_authenticate: (description, argv, env-factory)"""
    if ENCODER_ONLY:
        return
    combos = []
    for opts in ENTRY_OPTIONS:
        for authtok in ("present", "null", "err"):
            for prompt in ("ok", "null"):
                combos.append((opts, authtok, prompt, True, True))
    for opts in ([], ["try_first_pass"], ["not_set_pass"]):
        combos.append((opts, "null", "err", True, True))
        combos.append((opts, "null", "again", True, True))
        combos.append((opts, "null", "ok", False, True))    # pam_set_item fails
        combos.append((opts, "present", "ok", True, False))  # pam_get_user fails
    replies = [(b"OK", "close"), (b"NO", "close")]
    if tier == "thorough":
        replies += [(b"OK", "silence"), (None, "close")]
    for (opts, authtok, prompt, set_ok, user_ok) in combos:
        for (prefix, ending) in replies:
            def mk(authtok=authtok, prompt=prompt, set_ok=set_ok, user_ok=user_ok, prefix=prefix, ending=ending):
                return dict(socket_ok=True, connect_ok=True, write_plan=[], wselect=[], reads=[("data", 4), (ending,)],
                            reply=reply_bytes(2, 2, prefix), rpos=0, authtok=authtok, prompt=prompt, set_item_ok=set_ok, get_user_ok=user_ok)
            yield ("entry args=%s authtok=%s prompt=%s set_item=%s get_user=%s reply=%s end=%s" %
                   (" ".join(opts) or "-", authtok, prompt, "ok" if set_ok else "err", "ok" if user_ok else "err", prefix.decode() if prefix else "any", ending), opts, mk)

def initial_state_entry(eng, mod, argv, env, errno0, ulen=2, plen=2):
    """a call of pam_sm_authenticate(pamh, 0, argc, argv): user and AUTHTOK are items of the PAM
    library (memory the module does not own)"""
    st = llsym.State()
    st.env = env
    rid = eng.new_region(st, 4, "errno")
    eng.store(st, Ptr(rid, 0), "i32", errno0)
    ub, pb = sym_string("user", ulen), sym_string("pw", plen)
    for b in ub + pb:
        st.pc.append(b != 0)
    ur = eng.new_region(st, ulen + 1, "PAM_USER item")
    st.regions[ur].data = ub + [bv(0, 8)]
    st.regions[ur].foreign = True
    ar = eng.new_region(st, plen + 1, "PAM_AUTHTOK item")
    st.regions[ar].data = pb + [bv(0, 8)]
    st.regions[ar].foreign = True
    env["user_rid"], env["authtok_rid"], env["pw_bytes"] = ur, ar, pb
    ph = eng.new_region(st, 8, "pam handle")
    st.regions[ph].foreign = True
    av = eng.new_region(st, 8 * max(1, len(argv)), "argv")
    for i, o in enumerate(argv):
        orr = eng.new_region(st, len(o) + 1, "argv[%d]" % i)
        st.regions[orr].data = [bv(c, 8) for c in o.encode()] + [bv(0, 8)]
        st.regions[orr].foreign = True
        eng.store(st, Ptr(av, 8 * i), "i8*", Ptr(orr, 0))
    st.regions[av].foreign = True
    fn = mod.funcs["@pam_sm_authenticate"]
    fr = llsym.Frame(fn)
    vals = [Ptr(ph, 0), bv(0, 32), bv(len(argv), 32), Ptr(av, 0)]
    for (pt, pn), v in zip(fn.params, vals):
        fr.env[pn] = v
    st.frames.append(fr)
    return st, ub, pb

def expected_request(ub, pb):
    def part(bs):
        bs = bs[:MAXPART]
        n = len(bs)
        return [bv(n >> 8, 8), bv(n & 0xff, 8)] + bs
    return part(ub) + part(pb) + [bv(0, 8)] * 4

def reply_bytes(declared, nbody, prefix):
    """reply = be16(declared) + body (nbody bytes); prefix: concrete leading bytes or None for symbolic"""
    body = sym_string("reply", nbody)
    if prefix is not None:
        for i, c in enumerate(prefix[:nbody]):
            body[i] = bv(c, 8)
    return [bv(declared >> 8, 8), bv(declared & 0xff, 8)] + body

ENCODER_ONLY = False

def scenarios(tier):
    """yield (description, ulen, plen, env-factory)"""
    if ENCODER_ONLY:
        # C13 clause 6: only the request bytes matter; one benign reply script, more length pairs
        lens = [(0, 0), (1, 1), (2, 16), (16, 2), (254, 255), (255, 254), (255, 256), (256, 255), (256, 256), (256, 257), (257, 256), (257, 300)]
        if tier == "thorough":
            lens += [(300, 1), (1, 300), (3, 2000)]
        for (ulen, plen) in lens:
            def mk():
                return dict(socket_ok=True, connect_ok=True, write_plan=[], wselect=[], reads=[("data", 4), ("close",)],
                            reply=reply_bytes(2, 2, b"OK"), rpos=0)
            yield ("encoder user=%d password=%d" % (ulen, plen), ulen, plen, mk)
            def mk2():
                return dict(socket_ok=True, connect_ok=True, write_plan=["short", "all", "short"], wselect=[], reads=[("data", 4), ("close",)],
                            reply=reply_bytes(2, 2, b"OK"), rpos=0)
            yield ("encoder user=%d password=%d short writes" % (ulen, plen), ulen, plen, mk2)
        return
    lens = [(1, 1), (0, 0), (255, 256), (256, 257), (257, 300)]
    if tier == "thorough":
        lens += [(300, 255), (3, 2000)]
    # reply scripts: (declared length, body bytes sent, cut plan, ending)
    replies = []
    for declared, nbody in [(2, 2), (3, 3), (5, 5), (0, 0), (1, 1), (2, 1), (5, 2), (2, 5), (256, 256), (257, 257), (300, 256), (300, 300), (65535, 256), (65535, 40)]:
        total = 2 + nbody
        cuts = [[total]]                                  # all at once
        cuts.append([1] * total if total <= 8 else [1, total - 1])   # byte by byte / first byte alone
        if total > 2:
            cuts.append([2, nbody])                        # header, then body
            cuts.append([total - 1, 1])
        if total > 3:
            cuts.append([3, total - 3])
        for cut in cuts:
            for ending in ("close", "silence"):
                replies.append((declared, nbody, cut, ending))
    for (ulen, plen) in lens:
        for ri, (declared, nbody, cut, ending) in enumerate(replies):
            if (ulen, plen) != (1, 1) and ri % 9 != 0:
                continue   # long credentials: a sample of the reply scripts
            for eintr_at in (None, 0, 1):
                def mk(declared=declared, nbody=nbody, cut=cut, ending=ending, eintr_at=eintr_at):
                    reads = [("data", k) for k in cut if k > 0]
                    if eintr_at is not None and eintr_at <= len(reads):
                        reads.insert(eintr_at, ("eintr",))
                    reads.append((ending,))
                    return dict(socket_ok=True, connect_ok=True, write_plan=[], wselect=[], reads=reads,
                                reply=reply_bytes(declared, nbody, None), rpos=0)
                yield ("reply declared=%d body=%d cut=%s end=%s eintr=%s" % (declared, nbody, cut, ending, eintr_at), ulen, plen, mk)
    # write-side and connection failures
    for desc, kw in [("socket fails", dict(socket_ok=False)), ("connect fails", dict(connect_ok=False)),
                     ("write error", dict(write_plan=["all", "err"])), ("short writes", dict(write_plan=["short", "all", "short"])),
                     ("write returns 0", dict(write_plan=["zero"])), ("write select timeout", dict(wselect=[1, 0])),
                     ("write select EINTR", dict(wselect=[-1])), ("read error", dict(reads=[("data", 1), ("err",)]))]:
        def mk(kw=kw):
            env = dict(socket_ok=True, connect_ok=True, write_plan=[], wselect=[], reads=[("data", 4), ("close",)],
                       reply=reply_bytes(2, 2, b"OK"), rpos=0)
            env.update(kw)
            return env
        yield (desc, 2, 2, mk)

def main():
    ap = argparse.ArgumentParser()
    ap.add_argument("--tier", default=os.environ.get("VERIF_TIER", "quick"))
    ap.add_argument("--repo", default="/repo")
    ap.add_argument("--verif", default="/verif")
    ap.add_argument("--noreplay", action="store_true")
    ap.add_argument("--no-evidence", action="store_true")
    ap.add_argument("--prop", default="C20")
    ap.add_argument("--encoder-only", action="store_true", help="C13 clause 6: only the request-encoder obligation; merged into the existing evidence file")
    # the same spellings as gosym, so that ./check can pass its extra arguments through
    ap.add_argument("-repo", dest="repo")
    ap.add_argument("-evidence", dest="evidence_flag", default="true")
    ap.add_argument("-unit-seconds", dest="unit_seconds", default=None)
    ap.add_argument("-unit", dest="unit", default=None)
    ap.add_argument("-crosscheck", dest="crosscheck", default=None)   # gosym flag, accepted and ignored (./check C13 passes one argument list to both engines)
    a = ap.parse_args()
    if a.evidence_flag == "false":
        a.no_evidence = True
    t0 = time.time()
    seed = int(os.environ.get("VERIF_SEED", "0") or 0)
    work = tempfile.mkdtemp(prefix="llsym")
    try:
        return run(a, work, t0, seed)
    finally:
        shutil.rmtree(work, ignore_errors=True)

def run_scenarios(argt):
    """worker: runs the scenarios with index % nw == wi; returns plain (picklable) results"""
    global ENCODER_ONLY
    repo, tier, wi, nw, irtext, ENCODER_ONLY = argt
    mod = llsym.Module(irtext)
    stubs = Stubs()
    total = llsym.Stats()
    obligations = discharged = 0
    violations = []
    samples = []
    nscen = 0
    errno0 = z3.BitVec("errno_on_entry", 32)
    allscen = [(d, u, p_, m, None) for (d, u, p_, m) in scenarios(tier)] + [(d, 2, 2, m, argv) for (d, argv, m) in entry_scenarios(tier)]
    for idx, (desc, ulen, plen, mk, argv) in enumerate(allscen):
        if idx % nw != wi:
            continue
        nscen += 1
        eng = llsym.Engine(mod, stubs)
        if argv is None:
            st, ub, pb = initial_state(eng, mod, ulen, plen, mk(), errno0)
        else:
            st, ub, pb = initial_state_entry(eng, mod, argv, mk(), errno0, ulen, plen)
        finished, viols = eng.run(st)
        for k in ("queries", "sat", "unsat", "paths", "mem_checks"):
            setattr(total, k, getattr(total, k) + getattr(eng.stats, k))
        total.solver_s += eng.stats.solver_s
        total.funcs |= eng.stats.funcs
        def record(aid, detail, s, extra=None):
            v = dict(assert_id=aid, scenario=desc, ulen=ulen, plen=plen, detail=detail, trace=s.trace[-12:], state=s, eng=eng, extra=extra)
            v.update(concretise(v))
            for k in ("state", "eng", "extra"):
                v.pop(k)
            violations.append(v)
        for s in viols:
            v = s.violation
            aid = {"memory": "no-memory-errors", "unbounded": "returns-within-bounded-time", "inconclusive": "inconclusive"}[v.kind]
            record(aid, v.msg, s)
        exp = expected_request(ub, pb)
        for s in finished:
            res = z3.simplify(s.result)
            d = s.delivered
            okcond = z3.BoolVal(False)
            if len(d) >= 4:
                L = z3.Concat(d[0], d[1])
                need = z3.If(z3.UGT(L, MAXPART), bv(MAXPART, 16), L)
                okcond = z3.And(z3.UGE(need, 2), z3.ULE(z3.ZeroExt(16, need), len(d) - 2), d[2] == ord("O"), d[3] == ord("K"))
            obligations += 1
            c1 = z3.And(res == PAM_SUCCESS, z3.Not(okcond))
            if eng.feasible(s, c1):
                record("success-only-on-explicit-OK", "PAM_SUCCESS without a complete reply starting with OK", s, c1)
            else:
                discharged += 1
            obligations += 1
            c2 = z3.And(okcond, res != PAM_SUCCESS, len(s.written) == len(exp))
            if eng.feasible(s, c2):
                record("explicit-OK-is-accepted", "complete OK reply but result != PAM_SUCCESS", s, c2)
            else:
                discharged += 1
            if any(t.startswith("select(r)") or t.startswith("read") for t in s.trace):
                obligations += 1
                same = len(s.written) == len(exp)
                cond = z3.BoolVal(same)
                if same and exp:
                    cond = z3.And([x == y for x, y in zip(s.written, exp)])
                if eng.feasible(s, z3.Not(cond)):
                    record("request-bytes-equal-the-go-encoder", "bytes written differ from be16(len)+bytes per field (clipped at 256), empty service and realm", s, z3.Not(cond))
                else:
                    discharged += 1
            if argv is not None:
                continue   # entry level: every failure of the PAM library side keeps its own (non-success) code
            obligations += 1
            c4 = z3.And(res != PAM_SUCCESS, res != PAM_AUTH_ERR, res != PAM_AUTHINFO_UNAVAIL)
            if eng.feasible(s, c4):
                record("failure-maps-to-a-pam-error-code", "unexpected return code", s, c4)
            else:
                discharged += 1
            if len(samples) < 3 and nscen % 17 == 1:
                samples.append(dict(scenario=desc, user_len=ulen, password_len=plen, result=str(res), events=s.trace[-8:]))
    return dict(nscen=nscen, obligations=obligations, discharged=discharged, violations=violations, samples=samples,
                queries=total.queries, paths=total.paths, solver_s=total.solver_s, mem_checks=total.mem_checks, funcs=sorted(total.funcs))

def run(a, work, t0, seed):
    import multiprocessing
    global ENCODER_ONLY
    ENCODER_ONLY = a.encoder_only
    text = compile_ir(a.repo, work)
    nw = min(16, os.cpu_count() or 1)
    with multiprocessing.Pool(nw) as pool:
        parts = pool.map(run_scenarios, [(a.repo, a.tier, i, nw, text, a.encoder_only) for i in range(nw)])
    total = llsym.Stats()
    obligations = sum(p["obligations"] for p in parts)
    discharged = sum(p["discharged"] for p in parts)
    violations = [v for p in parts for v in p["violations"]]
    if a.encoder_only:
        violations = [v for v in violations if v["assert_id"] in ("request-bytes-equal-the-go-encoder", "no-memory-errors", "inconclusive", "returns-within-bounded-time")]
    violations.sort(key=lambda v: (v["assert_id"], v["scenario"]))
    samples = [s for p in parts for s in p["samples"]][:10]
    nscen = sum(p["nscen"] for p in parts)
    total.queries = sum(p["queries"] for p in parts)
    total.paths = sum(p["paths"] for p in parts)
    total.solver_s = sum(p["solver_s"] for p in parts)
    total.mem_checks = sum(p["mem_checks"] for p in parts)
    for p in parts:
        total.funcs |= set(p["funcs"])
    # report
    kf = load_known(os.path.join(a.verif, "known_findings.txt"))
    out_lines, nviol, nknown, inconclusive = [], 0, 0, 0
    seen = set()
    os.makedirs(os.path.join(a.verif, "replays"), exist_ok=True)
    for i, v in enumerate(violations):
        key = (v["assert_id"], v["scenario"].split(" cut=")[0])
        if v["assert_id"] == "inconclusive":
            inconclusive += 1
            continue
        sig = "llsym/" + v["assert_id"]
        if key in seen and len([1 for k in seen if k[0] == v["assert_id"]]) >= 3:
            continue
        seen.add(key)
        rp = os.path.join(a.verif, "replays", "%s-llsym-%s-%d.json" % (a.prop, v["assert_id"], i))
        cex = v
        json.dump(dict(property=a.prop, unit="llsym:_whawty_check_password", **{"assert": v["assert_id"]}, **{k: x for k, x in v.items() if k != "assert_id"}), open(rp, "w"), indent=1)
        status = "skipped" if a.noreplay else replay_native(a.repo, work, v, cex)
        if status in ("yes", "skipped"):
            if sig in kf and kf[sig][0] in v["scenario"] + " " + v["detail"]:
                nknown += 1
                out_lines.append("KNOWN-FINDING: property=%s %s" % (a.prop, kf[sig][1]))
            else:
                nviol += 1
                out_lines.append("VIOLATION property=%s replay=%s" % (a.prop, rp))
                print("  violation %s: %s [%s] native=%s" % (v["assert_id"], v["detail"], v["scenario"], status))
        else:
            inconclusive += 1
            print("  NOT-REPRODUCED %s: %s [%s] (%s)" % (v["assert_id"], v["detail"], v["scenario"], status))
    for l in dict.fromkeys(out_lines):
        print(l)
    wall = time.time() - t0
    ev = dict(property_id=a.prop, tier=a.tier, seed=seed, level="model_checking",
              coverage=dict(states=total.paths, transitions=total.queries, traces_validated_against_impl=0 if a.noreplay else len(violations),
                            samples=samples or ["no sample"], evaluations=total.paths, distinct_nontrivial=total.paths,
                            rule="one evaluation = one feasible path of _whawty_check_password (and callees) under one environment script; user/password/reply bytes and errno on entry are symbolic",
                            obligations=obligations, discharged=discharged, scenarios=nscen,
                            functions_encoded=sorted(total.funcs), solver="z3 (python API) " + z3.get_version_string(), solver_queries=total.queries,
                            solver_s=round(total.solver_s, 2), memory_accesses_bounds_checked=total.mem_checks,
                            bounds={"user/password lengths": "(1,1),(0,0),(255,256),(256,257),(257,300) quick; +(300,255),(3,2000) thorough; arbitrary non-NUL bytes",
                                    "replies": "declared length in {0,1,2,3,5,256,257,300,65535} with 0..300 body bytes of arbitrary content, delivered whole / byte-wise / header+body / all-but-one, then close or silence; one EINTR at the first or second select",
                                    "failures": "socket/connect failure, write error, short writes, zero write, select timeout/EINTR in the write phase, read error",
                                    "loops": "a block entered more than 600 times on one path is reported as unbounded (persistent end-of-stream / silence are persistent conditions)"},
                            outside_claim=["real timing", "fd >= FD_SETSIZE", "allocation failure (strdup returns NULL)", "option strings other than the listed menu"],
                            entry_level="pam_sm_authenticate(pamh, 0, argc, argv) with the option lists " + "; ".join(" ".join(o) or "(none)" for o in ENTRY_OPTIONS) +
                                        " x PAM_AUTHTOK present / absent / error x conversation answers / returns NULL / fails / not ready x pam_set_item, pam_get_user failing; PAM_USER, PAM_AUTHTOK, argv and the handle are memory the module does not own (a store or free into them is a memory error); select with a negative timeout fails with EINVAL every time",
                            explanation="symbolic execution of the clang -O0 LLVM IR of pam_whawty.c regenerated on this run"),
              assumptions=["libpam stubs: pam_get_user / pam_get_item hand out pointers into library-owned memory, pam_prompt hands over a malloc'ed response the module must free, atoi as in C",
                           "libc/syscall stubs follow the man pages: read returns -1, 0 or 1..len and does not touch errno on success; select returns -1/EINTR, 0 or 1; errno is arbitrary on entry",
                           "logging (_whawty_logf) has an empty body", "strings passed in are NUL-terminated with non-NUL content"],
              wall_s=round(wall, 2), violations=nviol)
    if not a.no_evidence and a.encoder_only:
        # merge into the evidence file the Go-side check of this property has just written
        path = os.path.join(a.verif, "evidence", a.prop + ".json")
        try:
            base = json.load(open(path))
        except Exception:
            base = None
        if base is not None:
            cov = base["coverage"]
            cov["pam_encoder_llsym"] = dict(scenarios=nscen, paths=total.paths, solver_queries=total.queries, solver_s=round(total.solver_s, 2),
                                            obligations=obligations, discharged=discharged, functions_encoded=sorted(total.funcs),
                                            bounds="user/password lengths " + ", ".join("(%d,%d)" % (u, p) for (_, u, p, _) in list(scenarios(a.tier))[::2]) + "; arbitrary non-NUL bytes; whole and short writes",
                                            explanation="clause 6: the bytes pam_whawty.c writes (clang -O0 LLVM IR, symbolically executed) equal be16(len)+bytes per field as the Go encoder produces them",
                                            samples=samples[:3], violations=nviol, wall_s=round(wall, 2))
            for k in ("obligations", "discharged"):
                if isinstance(cov.get(k), int):
                    cov[k] += obligations if k == "obligations" else discharged
            base["wall_s"] = round(base.get("wall_s", 0) + wall, 2)
            if isinstance(base.get("violations"), int):
                base["violations"] += nviol
            json.dump(base, open(path, "w"), indent=1)
    elif not a.no_evidence:
        os.makedirs(os.path.join(a.verif, "evidence"), exist_ok=True)
        json.dump(ev, open(os.path.join(a.verif, "evidence", a.prop + ".json"), "w"), indent=1)
    print("RESULT property=%s tier=%s scenarios=%d paths=%d queries=%d obligations=%d discharged=%d violations=%d known=%d inconclusive=%d wall=%.1fs" %
          (a.prop, a.tier, nscen, total.paths, total.queries, obligations, discharged, nviol, nknown, inconclusive, wall))
    if nviol:
        return 1
    if inconclusive:
        return 2
    return 0

def load_known(path):
    m = {}
    try:
        for l in open(path):
            l = l.strip()
            if l.startswith("finding:") and " -- " in l:
                sig = [f[4:] for f in l.split() if f.startswith("sig=")]
                key = [f[4:] for f in l.split() if f.startswith("key=")]
                if sig:
                    m[sig[0]] = (key[0].replace("_", " ") if key else "", l.split(" -- ", 1)[1])
    except FileNotFoundError:
        pass
    return m

def concretise(v):
    """model values for user / password / reply bytes / errno of a counterexample state"""
    s, eng = v["state"], v["eng"]
    m = eng.model(s, v.get("extra"))
    def val(b):
        if m is None:
            return 0
        return m.eval(b, model_completion=True).as_long()
    env = s.env
    user = [val(z3.BitVec("user_%d" % i, 8)) or 65 for i in range(v["ulen"])]
    pw = [val(z3.BitVec("pw_%d" % i, 8)) or 66 for i in range(v["plen"])]
    reply = [val(b) for b in env["reply"]]
    return dict(user=user, password=pw, reply=reply, errno_on_entry=val(z3.BitVec("errno_on_entry", 32)), scenario_env=dict(
        socket_ok=env["socket_ok"], connect_ok=env["connect_ok"], authtok=env.get("authtok"), prompt=env.get("prompt"),
        set_item_ok=env.get("set_item_ok"), get_user_ok=env.get("get_user_ok")))

def replay_native(repo, work, v, cex):
    """compile pam_whawty.c with ASan + the replay driver and run the scenario; returns yes/no/error"""
    drv = os.path.join(HERE, "replay_driver.c")
    exe = os.path.join(work, "replay")
    if not os.path.exists(exe):
        r = subprocess.run(["clang-14", "-g", "-O0", "-fsanitize=address", "-I", os.path.join(HERE, "include"), "-o", exe, drv, os.path.join(repo, "pam", "pam_whawty.c")],
                           capture_output=True, text=True)
        if r.returncode != 0:
            return "error: " + r.stderr[-300:]
    scen = os.path.join(work, "scenario.txt")
    desc = v["scenario"]
    with open(scen, "w") as f:
        f.write("errno %d\n" % cex["errno_on_entry"])
        f.write("user %s\n" % bytes(cex["user"]).hex())
        f.write("password %s\n" % bytes(cex["password"]).hex())
        f.write("reply %s\n" % bytes(cex["reply"]).hex())
        f.write("desc %s\n" % desc)
        se = cex.get("scenario_env", {})
        if desc.startswith("entry "):
            args = desc.split(" args=")[1].split(" authtok=")[0]
            f.write("args %s\n" % ("" if args == "-" else args))
            f.write("authtok %s\nprompt %s\nset_item %d\nget_user %d\n" % (se.get("authtok"), se.get("prompt"), 1 if se.get("set_item_ok") else 0, 1 if se.get("get_user_ok") else 0))
    try:
        r = subprocess.run([exe, scen], capture_output=True, text=True, timeout=12, env=dict(os.environ, ASAN_OPTIONS="detect_leaks=0"))
    except subprocess.TimeoutExpired:
        return "yes" if v["assert_id"] == "returns-within-bounded-time" else "no (timeout)"
    out = r.stdout + r.stderr
    if "AddressSanitizer" in out or "AUTHTOK_INTACT 0" in out:
        return "yes" if v["assert_id"] == "no-memory-errors" else "no (asan)"
    if v["assert_id"] == "success-only-on-explicit-OK":
        return "yes" if "RESULT 0" in out and "REPLY_OK 0" in out else "no"
    if v["assert_id"] == "request-bytes-equal-the-go-encoder":
        return "yes" if "REQUEST_MATCH 0" in out else "no"
    if v["assert_id"] == "explicit-OK-is-accepted":
        return "yes" if "REPLY_OK 1" in out and "RESULT 0" not in out else "no"
    return "no"

if __name__ == "__main__":
    try:
        rc = main()
    except Exception as e:  # an unsupported construct is inconclusive, never an alarm
        import traceback
        traceback.print_exc()
        print("RESULT property=C20 inconclusive: llsym could not encode the current source (%s)" % e)
        rc = 2
    sys.exit(rc)
