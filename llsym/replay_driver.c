/* Native replay driver for llsym counterexamples: links against pam/pam_whawty.c (stub PAM
 * headers), provides the PAM library stubs and a scripted socketpair server, and calls
 * pam_sm_authenticate with the scenario's user / password / reply / errno. */
#define _GNU_SOURCE
#include <stdio.h>
#include <stdlib.h>
#include <string.h>
#include <errno.h>
#include <unistd.h>
#include <pthread.h>
#include <sys/socket.h>
#include <sys/un.h>
#include <stdarg.h>
#include <security/pam_modules.h>
#include <security/pam_ext.h>

static char g_user[70000], g_pw[70000];
static unsigned char g_reply[70000]; static size_t g_reply_len;
static unsigned char g_req[140000]; static size_t g_req_len;
static char g_sock[108];
static char g_desc[512];
static int g_errno;

/* scenario of the PAM library side (entry-level scenarios; defaults = the socket-level ones) */
static char g_args[512]; static int g_have_args;
static char g_authtok_kind[16] = "present", g_prompt_kind[16] = "ok";
static int g_set_item_ok = 1, g_get_user_ok = 1;
static char *g_authtok;   /* heap copy owned by "libpam": the module must neither write nor free it */

int pam_get_user(pam_handle_t *pamh, const char **user, const char *prompt) { if (!g_get_user_ok) return PAM_SERVICE_ERR; *user = g_user; return PAM_SUCCESS; }
int pam_get_item(const pam_handle_t *pamh, int item_type, const void **item) {
  if (!strcmp(g_authtok_kind, "err")) return 4;
  *item = (item_type == PAM_AUTHTOK && !strcmp(g_authtok_kind, "present")) ? g_authtok : NULL; return PAM_SUCCESS; }
int pam_set_item(pam_handle_t *pamh, int item_type, const void *item) { return g_set_item_ok ? PAM_SUCCESS : PAM_BUF_ERR; }
const char *pam_strerror(pam_handle_t *pamh, int errnum) { return "err"; }
void pam_syslog(const pam_handle_t *pamh, int priority, const char *fmt, ...) {}
void pam_vsyslog(const pam_handle_t *pamh, int priority, const char *fmt, va_list args) {}
int pam_prompt(pam_handle_t *pamh, int style, char **response, const char *fmt, ...) {
  if (!strcmp(g_prompt_kind, "err")) return PAM_CONV_ERR;
  if (!strcmp(g_prompt_kind, "again")) return PAM_CONV_AGAIN;
  if (!strcmp(g_prompt_kind, "null")) { *response = NULL; return PAM_SUCCESS; }
  *response = strdup(g_pw); return PAM_SUCCESS; }
int pam_sm_authenticate(pam_handle_t *pamh, int flags, int argc, const char **argv);

static size_t unhex(const char *h, unsigned char *out) {
  size_t n = 0; unsigned v;
  while (h[0] && h[1] && sscanf(h, "%2x", &v) == 1) { out[n++] = (unsigned char)v; h += 2; }
  return n;
}

static void *server(void *arg) {
  int ls = *(int *)arg;
  int c = accept(ls, NULL, NULL);
  if (c < 0) return NULL;
  /* read the raw request bytes until the client goes quiet (no framing assumed) */
  struct timeval tv = {0, 300000};
  setsockopt(c, SOL_SOCKET, SO_RCVTIMEO, &tv, sizeof tv);
  for (;;) {
    ssize_t r = recv(c, g_req + g_req_len, sizeof g_req - g_req_len, 0);
    if (r <= 0) break;
    g_req_len += r;
    if (g_req_len >= sizeof g_req) break;
  }
  int silence = strstr(g_desc, "end=silence") != NULL;
  int bytewise = strstr(g_desc, "cut=[1, 1") != NULL;
  if (bytewise) { for (size_t i = 0; i < g_reply_len; i++) { send(c, g_reply + i, 1, MSG_NOSIGNAL); usleep(2000); } }
  else if (g_reply_len) send(c, g_reply, g_reply_len, MSG_NOSIGNAL);
  if (silence) sleep(20);   /* far beyond the module time limit (2 s) and the replay deadline (12 s): a module that is still waiting then is not bounded by its timeout */
  close(c);
  return NULL;
}

int main(int argc, char **argv) {
  FILE *f = fopen(argv[1], "r"); char *line = NULL; size_t cap = 0;
  static char hex[300000];
  while (getline(&line, &cap, f) > 0) {
    if (sscanf(line, "errno %d", &g_errno) == 1) continue;
    if (sscanf(line, "user %299999s", hex) == 1) { size_t n = unhex(hex, (unsigned char *)g_user); g_user[n] = 0; continue; }
    if (!strncmp(line, "user", 4)) { g_user[0] = 0; continue; }
    if (sscanf(line, "password %299999s", hex) == 1) { size_t n = unhex(hex, (unsigned char *)g_pw); g_pw[n] = 0; continue; }
    if (!strncmp(line, "password", 8)) { g_pw[0] = 0; continue; }
    if (sscanf(line, "reply %299999s", hex) == 1) { g_reply_len = unhex(hex, g_reply); continue; }
    if (!strncmp(line, "desc ", 5)) { strncpy(g_desc, line + 5, sizeof g_desc - 1); continue; }
    if (!strncmp(line, "args", 4)) { g_have_args = 1; strncpy(g_args, line[4] ? line + 5 : "", sizeof g_args - 1); g_args[strcspn(g_args, "\n")] = 0; continue; }
    if (sscanf(line, "authtok %15s", g_authtok_kind) == 1) continue;
    if (sscanf(line, "prompt %15s", g_prompt_kind) == 1) continue;
    if (sscanf(line, "set_item %d", &g_set_item_ok) == 1) continue;
    if (sscanf(line, "get_user %d", &g_get_user_ok) == 1) continue;
  }
  snprintf(g_sock, sizeof g_sock, "/tmp/vp-llsym-%d.sock", getpid());
  unlink(g_sock);
  int ls = socket(AF_UNIX, SOCK_STREAM, 0);
  struct sockaddr_un a; memset(&a, 0, sizeof a); a.sun_family = AF_UNIX; strcpy(a.sun_path, g_sock);
  int serve = strstr(g_desc, "connect fails") == NULL && strstr(g_desc, "socket fails") == NULL;
  if (serve) { bind(ls, (struct sockaddr *)&a, sizeof a); listen(ls, 1); }
  pthread_t th; if (serve) pthread_create(&th, NULL, server, &ls);
  char sockarg[200]; snprintf(sockarg, sizeof sockarg, "sock=%s", g_sock);
  const char *args[40] = {sockarg, "timeout=2", "use_first_pass"};
  int nargs = 3;
  if (g_have_args) {   /* entry-level scenario: its own options, after our socket (a later sock= of the scenario wins, as in the module) */
    nargs = 1;
    if (!strstr(g_args, "timeout=")) args[nargs++] = "timeout=2";
    for (char *t = strtok(g_args, " "); t && nargs < 39; t = strtok(NULL, " "))
      if (strncmp(t, "sock=", 5)) args[nargs++] = t;
  }
  g_authtok = strdup(g_pw);
  errno = g_errno;
  int ret = pam_sm_authenticate((pam_handle_t *)&g_errno, 0, nargs, args);
  /* libpam still uses its item afterwards: ASan reports a module that freed it; a module that wiped it is seen here */
  printf("AUTHTOK_INTACT %d\n", !strcmp(g_authtok, g_pw));
  free(g_authtok);
  if (serve) { shutdown(ls, SHUT_RDWR); pthread_join(th, NULL); }   /* a module that never connected leaves the server in accept() */
  unlink(g_sock);
  /* what a correct decision would be */
  int reply_ok = 0;
  if (g_reply_len >= 4) {
    size_t l = (g_reply[0] << 8) | g_reply[1]; if (l > 256) l = 256;
    reply_ok = l >= 2 && g_reply_len - 2 >= l && g_reply[2] == 'O' && g_reply[3] == 'K';
  }
  /* expected request */
  unsigned char exp[1200]; size_t el = 0;
  size_t ul = strlen(g_user); if (ul > 256) ul = 256;
  size_t pl = strlen(g_pw); if (pl > 256) pl = 256;
  exp[el++] = ul >> 8; exp[el++] = ul & 255; memcpy(exp + el, g_user, ul); el += ul;
  exp[el++] = pl >> 8; exp[el++] = pl & 255; memcpy(exp + el, g_pw, pl); el += pl;
  memset(exp + el, 0, 4); el += 4;
  printf("RESULT %d\nREPLY_OK %d\nREQUEST_MATCH %d\n", ret, reply_ok, el == g_req_len && !memcmp(exp, g_req, el));
  return 0;
}
