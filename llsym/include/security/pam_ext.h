#ifndef PAM_EXT_H
#define PAM_EXT_H
#include <stdarg.h>
#include <security/pam_modules.h>
void pam_syslog(const pam_handle_t *pamh, int priority, const char *fmt, ...);
void pam_vsyslog(const pam_handle_t *pamh, int priority, const char *fmt, va_list args);
int pam_prompt(pam_handle_t *pamh, int style, char **response, const char *fmt, ...);
#endif
