#!/usr/bin/env python3
"""llsym: a small path-forking symbolic executor for the clang -O0 LLVM IR of pam/pam_whawty.c.

Values are z3 bit-vectors; pointers are (region, offset) with a concrete offset; memory is a set
of byte regions with bounds-checked accesses; libc / syscall / PAM externals are nondeterministic
stubs driven by an explicit environment script (server behaviour). Every branch on a symbolic
condition is decided by z3 (both sides explored when both are feasible).
"""
import re, sys, copy, itertools
import z3

PTR_BITS = 64

class Ptr:
    __slots__ = ("region", "off")
    def __init__(self, region, off):
        self.region = region  # int id, 0 = null
        self.off = off        # python int
    def __repr__(self):
        return "Ptr(r%d+%d)" % (self.region, self.off)

NULL = Ptr(0, 0)

class TPtr(Ptr):
    """pointer into a read-only constant table (libc's character-class table) at a *symbolic* element
    index: region, byte offset of element 0, signed index term, element size. Only loads are allowed;
    the load is an if-then-else term over the table, after the solver has shown the index in range."""
    __slots__ = ("sym", "scale")
    def __init__(self, region, off, sym, scale):
        Ptr.__init__(self, region, off)
        self.sym, self.scale = sym, scale

class Violation(Exception):
    def __init__(self, kind, msg):
        self.kind, self.msg = kind, msg

class PathEnd(Exception):
    pass

# ---------------------------------------------------------------------------
# IR parsing

class Func:
    def __init__(self, name, params, rettype):
        self.name, self.params, self.rettype = name, params, rettype
        self.blocks = {}     # label -> list of instruction strings
        self.order = []

class Module:
    def __init__(self, text):
        self.structs = {}
        self.globals = {}    # name -> (type, bytes or None)
        self.funcs = {}
        self.declared = set()
        self.parse(text)

    def parse(self, text):
        cur = None
        label = None
        for line in text.split("\n"):
            s = line.strip()
            if not s or s.startswith(";") or s.startswith("!") or s.startswith("source_filename") or s.startswith("target ") or s.startswith("attributes "):
                continue
            m = re.match(r"(%[\w.]+) = type (.*)$", s)
            if m and cur is None:
                self.structs[m.group(1)] = m.group(2).strip()
                continue
            m = re.match(r"(@[\w.]+) = .*?(?:constant|global) (\[\d+ x i8\]) (c\"(.*)\"|zeroinitializer)", s)
            if m and cur is None:
                n = int(re.match(r"\[(\d+)", m.group(2)).group(1))
                if m.group(3) == "zeroinitializer":
                    data = bytes(n)
                else:
                    data = self.cstring(m.group(4))
                self.globals[m.group(1)] = (m.group(2), data)
                continue
            m = re.match(r"define .*? (@[\w.]+)\((.*)\) .*\{$", s)
            if m:
                rett = re.match(r"define (?:dso_local )?(?:noundef )?(?:zeroext |signext )?(\S+)", s).group(1)
                params = []
                for p in self.split_args(m.group(2)):
                    if p == "...":
                        continue
                    toks = p.split()
                    params.append((toks[0], toks[-1]))
                cur = Func(m.group(1), params, rett)
                self.funcs[cur.name] = cur
                label = "entry"
                cur.blocks[label] = []
                cur.order.append(label)
                continue
            if s == "}":
                cur = None
                continue
            m = re.match(r"declare .*? (@[\w.]+)\(", s)
            if m:
                self.declared.add(m.group(1))
                continue
            if cur is not None:
                m = re.match(r"(\d+):", s)
                if m:
                    label = "%" + m.group(1)
                    cur.blocks[label] = []
                    cur.order.append(label)
                    continue
                cur.blocks[label].append(re.sub(r", !llvm\.loop !\d+", "", s))

    @staticmethod
    def cstring(s):
        out = bytearray()
        i = 0
        while i < len(s):
            if s[i] == "\\":
                out.append(int(s[i+1:i+3], 16))
                i += 3
            else:
                out.append(ord(s[i]))
                i += 1
        return bytes(out)

    @staticmethod
    def split_args(s):
        out, depth, cur = [], 0, ""
        for ch in s:
            if ch in "([{<":
                depth += 1
            elif ch in ")]}>":
                depth -= 1
            if ch == "," and depth == 0:
                out.append(cur.strip())
                cur = ""
            else:
                cur += ch
        if cur.strip():
            out.append(cur.strip())
        return out

    # ---- type layout ----
    def sizeof(self, t):
        t = t.strip()
        if t.endswith("*"):
            return 8
        m = re.match(r"i(\d+)$", t)
        if m:
            return max(1, int(m.group(1)) // 8)
        m = re.match(r"\[(\d+) x (.*)\]$", t)
        if m:
            return int(m.group(1)) * self.sizeof(m.group(2))
        if t.startswith("%"):
            return self.struct_layout(t)[1]
        if t.startswith("{"):
            return self.layout_fields(self.split_args(t.strip("{} ")))[1]
        raise ValueError("sizeof " + t)

    def alignof(self, t):
        t = t.strip()
        if t.endswith("*"):
            return 8
        m = re.match(r"i(\d+)$", t)
        if m:
            return max(1, int(m.group(1)) // 8)
        m = re.match(r"\[(\d+) x (.*)\]$", t)
        if m:
            return self.alignof(m.group(2))
        if t.startswith("%"):
            return max(self.alignof(f) for f in self.struct_fields(t))
        raise ValueError("alignof " + t)

    def struct_fields(self, t):
        body = self.structs[t]
        if body == "opaque":
            return ["i8"]
        return self.split_args(body.strip("{} "))

    def layout_fields(self, fields):
        offs, off, al = [], 0, 1
        for f in fields:
            a = self.alignof(f)
            al = max(al, a)
            off = (off + a - 1) // a * a
            offs.append(off)
            off += self.sizeof(f)
        off = (off + al - 1) // al * al
        return offs, off

    def struct_layout(self, t):
        return self.layout_fields(self.struct_fields(t))

# ---------------------------------------------------------------------------
# State

class Region:
    __slots__ = ("size", "data", "name", "freed", "heap", "foreign", "table")
    def __init__(self, size, name, heap=False):
        self.size, self.name, self.heap = size, name, heap
        self.table = False     # read-only constant table that may be indexed symbolically
        self.data = [None] * size
        self.freed = False
        self.foreign = False   # owned by the caller's library (libpam): the module may read it only

class Frame:
    def __init__(self, fn):
        self.fn = fn
        self.env = {}
        self.block = "entry"
        self.prev = None
        self.ip = 0
        self.allocas = []

class State:
    def __init__(self):
        self.regions = {}
        self.next_region = 1
        self.frames = []
        self.pc = []
        self.written = []          # bytes accepted by write()
        self.delivered = []        # bytes delivered by read()
        self.env = None            # environment script state (dict)
        self.loop_visits = {}
        self.steps = 0
        self.trace = []
        self.nfresh = 0
        self.result = None

    def clone(self):
        s = State()
        s.regions = {}
        for k, r in self.regions.items():
            nr = Region(r.size, r.name, r.heap)
            nr.data = list(r.data)
            nr.freed = r.freed
            nr.foreign = r.foreign
            s.regions[k] = nr
        s.next_region = self.next_region
        for f in self.frames:
            nf = Frame(f.fn)
            nf.env = dict(f.env)
            nf.block, nf.prev, nf.ip = f.block, f.prev, f.ip
            nf.allocas = list(f.allocas)
            nf.pending_dst = f.pending_dst
            s.frames.append(nf)
        s.pc = list(self.pc)
        s.written = list(self.written)
        s.delivered = list(self.delivered)
        s.env = copy.deepcopy(self.env)
        s.loop_visits = dict(self.loop_visits)
        s.steps = self.steps
        s.trace = list(self.trace)
        s.nfresh = self.nfresh
        return s

class Stats:
    def __init__(self):
        self.queries = 0
        self.sat = 0
        self.unsat = 0
        self.paths = 0
        self.solver_s = 0.0
        self.funcs = set()
        self.mem_checks = 0

class Engine:
    def __init__(self, module, stubs, max_loop=600, max_steps=400000):
        self.m = module
        self.stubs = stubs
        self.solver = z3.Solver()
        self.stats = Stats()
        self.max_loop = max_loop
        self.max_steps = max_steps

    # ---- solver ----
    def feasible(self, st, cond):
        import time
        cond = z3.simplify(cond)
        if z3.is_true(cond):
            return True
        if z3.is_false(cond):
            return False
        t0 = time.time()
        self.solver.push()
        for c in st.pc:
            self.solver.add(c)
        self.solver.add(cond)
        r = self.solver.check()
        self.solver.pop()
        self.stats.queries += 1
        self.stats.solver_s += time.time() - t0
        if r == z3.sat:
            self.stats.sat += 1
            return True
        if r == z3.unsat:
            self.stats.unsat += 1
            return False
        raise Violation("inconclusive", "solver returned unknown")

    def model(self, st, extra=None):
        self.solver.push()
        for c in st.pc:
            self.solver.add(c)
        if extra is not None:
            self.solver.add(extra)
        r = self.solver.check()
        m = self.solver.model() if r == z3.sat else None
        self.solver.pop()
        self.stats.queries += 1
        return m

    def concretize(self, st, v, worklist):
        """fork over the feasible values of bit-vector v (bounded); returns the value for this state."""
        v = z3.simplify(v)
        if z3.is_bv_value(v):
            return v.as_long()
        m = self.model(st)
        if m is None:
            raise PathEnd()
        val = m.eval(v, model_completion=True).as_long()
        other = st.clone()
        other.pc.append(v != val)
        if self.feasible(other, z3.BoolVal(True)):
            other._redo = True
            worklist.append(other)
        st.pc.append(v == val)
        return val

    # ---- memory ----
    def new_region(self, st, size, name, heap=False):
        rid = st.next_region
        st.next_region += 1
        st.regions[rid] = Region(size, name, heap)
        return rid

    def check_access(self, st, p, n, what):
        self.stats.mem_checks += 1
        if p.region == 0:
            raise Violation("memory", "%s through NULL pointer" % what)
        r = st.regions.get(p.region)
        if r is None or r.freed:
            raise Violation("memory", "%s of freed/unknown region" % what)
        if p.off < 0 or p.off + n > r.size:
            raise Violation("memory", "%s out of bounds: %s[%d..%d) size %d" % (what, r.name, p.off, p.off + n, r.size))
        return r

    def load_bytes(self, st, p, n):
        r = self.check_access(st, p, n, "load")
        out = []
        for i in range(n):
            b = r.data[p.off + i]
            if b is None:
                st.nfresh += 1
                b = z3.BitVec("uninit_%s_%d_%d" % (r.name.replace(" ", "_"), p.off + i, st.nfresh), 8)
                r.data[p.off + i] = b
            out.append(b)
        return out

    def store_bytes(self, st, p, bs):
        r = self.check_access(st, p, len(bs), "store")
        if r.foreign:
            raise Violation("memory", "store into memory the module does not own (%s)" % r.name)
        for i, b in enumerate(bs):
            r.data[p.off + i] = b

    def load_table(self, st, p, t):
        n = self.m.sizeof(t)
        r = self.check_access(st, Ptr(p.region, 0), 1, "load")
        lo = -(p.off // p.scale)                    # smallest index inside the table
        hi = (r.size - n - p.off) // p.scale        # largest index inside the table
        w = p.sym.size()
        inside = z3.And(p.sym >= z3.BitVecVal(lo, w), p.sym <= z3.BitVecVal(hi, w))
        if self.feasible(st, z3.Not(inside)):
            raise Violation("memory", "load out of bounds: %s indexed outside [%d..%d]" % (r.name, lo, hi))
        v = None
        for i in range(hi, lo - 1, -1):
            o = p.off + i * p.scale
            e = r.data[o]
            for b in r.data[o + 1:o + n]:
                e = z3.Concat(b, e)
            v = e if v is None else z3.If(p.sym == z3.BitVecVal(i, w), e, v)
        return z3.simplify(v)

    def load(self, st, p, t):
        if isinstance(p, TPtr):
            return self.load_table(st, p, t)
        n = self.m.sizeof(t)
        if t.endswith("*"):
            r = self.check_access(st, p, 8, "load")
            v = r.data[p.off]
            if isinstance(v, tuple) and v[0] == "ptr":
                return v[1]
            if v is None:
                return NULL  # uninitialised pointer slot: treated as NULL (clang -O0 code always stores first)
            raise Violation("memory", "pointer load of non-pointer bytes")
        bs = self.load_bytes(st, p, n)
        for b in bs:
            if isinstance(b, tuple):
                raise Violation("memory", "integer load of pointer bytes")
        v = bs[0]
        for b in bs[1:]:
            v = z3.Concat(b, v)
        return v

    def store(self, st, p, t, v):
        n = self.m.sizeof(t)
        if isinstance(v, Ptr):
            r = self.check_access(st, p, 8, "store")
            r.data[p.off] = ("ptr", v)
            for i in range(1, 8):
                r.data[p.off + i] = ("ptrpad",)
            return
        bs = [z3.Extract(8 * i + 7, 8 * i, v) for i in range(n)]
        self.store_bytes(st, p, [z3.simplify(b) for b in bs])

    # ---- operands ----
    def bits(self, t):
        return int(t[1:])

    def operand(self, st, fr, t, tok):
        tok = tok.strip()
        if tok.startswith("%"):
            return fr.env[tok]
        if tok.startswith("@"):
            return self.global_ptr(st, tok)
        if tok == "null":
            return NULL
        if tok in ("true", "false"):
            return z3.BitVecVal(1 if tok == "true" else 0, 1)
        if tok == "undef" or tok == "poison":
            return z3.BitVecVal(0, self.bits(t)) if t.startswith("i") else NULL
        if tok.startswith("getelementptr"):
            return self.const_gep(st, tok)
        if tok.startswith("bitcast"):
            m = re.match(r"bitcast \((.*?) (@[\w.]+) to .*\)", tok)
            return self.global_ptr(st, m.group(2))
        return z3.BitVecVal(int(tok), self.bits(t))

    def global_ptr(self, st, name):
        key = "g:" + name
        for rid, r in st.regions.items():
            if r.name == key:
                return Ptr(rid, 0)
        ty, data = self.m.globals[name]
        rid = self.new_region(st, len(data), key)
        st.regions[rid].data = [z3.BitVecVal(b, 8) for b in data]
        return Ptr(rid, 0)

    def const_gep(self, st, tok):
        m = re.match(r"getelementptr inbounds \((.*?), (.*?)\* (@[\w.]+)((?:, i\d+ \d+)*)\)", tok)
        base = self.global_ptr(st, m.group(3))
        idx = [int(x.split()[-1]) for x in m.group(4).split(",") if x.strip()]
        return self.gep(st, m.group(1), base, [z3.BitVecVal(i, 64) for i in idx], None)

    def gep(self, st, t, base, idx, worklist):
        off = base.off
        cur = t
        for k, iv in enumerate(idx):
            iv = z3.simplify(iv)
            if not z3.is_bv_value(iv):
                r0 = st.regions.get(base.region)
                if k == 0 and len(idx) == 1 and r0 is not None and r0.table and not isinstance(base, TPtr):
                    return TPtr(base.region, off, iv, self.m.sizeof(cur))
                val = self.concretize(st, iv, worklist)
            else:
                val = iv.as_long()
            bitsz = iv.size()
            if val >= 1 << (bitsz - 1):
                val -= 1 << bitsz
            if k == 0:
                off += val * self.m.sizeof(cur)
                continue
            m = re.match(r"\[(\d+) x (.*)\]$", cur)
            if m:
                cur = m.group(2)
                off += val * self.m.sizeof(cur)
            elif cur.startswith("%") or cur.startswith("{"):
                fields = self.m.struct_fields(cur) if cur.startswith("%") else self.m.split_args(cur.strip("{} "))
                offs, _ = self.m.layout_fields(fields)
                off += offs[val]
                cur = fields[val]
            else:
                raise ValueError("gep into " + cur)
        return Ptr(base.region, off)

    # ---- running ----
    def run(self, st):
        """explore all paths from st; yields finished states (st.result set) or raises via results list."""
        worklist = [st]
        finished = []
        violations = []
        while worklist:
            s = worklist.pop()
            try:
                self.run_path(s, worklist)
                finished.append(s)
            except PathEnd:
                pass
            except Violation as v:
                s.violation = v
                violations.append(s)
            self.stats.paths += 1
        return finished, violations

    def run_path(self, st, worklist):
        while st.frames:
            fr = st.frames[-1]
            ins = fr.fn.blocks[fr.block][fr.ip]
            st.steps += 1
            if st.steps > self.max_steps:
                raise Violation("unbounded", "step budget exhausted in %s" % fr.fn.name)
            self.step(st, fr, ins, worklist)

    def goto(self, st, fr, label):
        key = (len(st.frames), fr.fn.name, label)
        st.loop_visits[key] = st.loop_visits.get(key, 0) + 1
        if st.loop_visits[key] > self.max_loop:
            raise Violation("unbounded", "block %s of %s entered more than %d times: a loop that neither returns nor makes progress" % (label, fr.fn.name, self.max_loop))
        fr.prev, fr.block, fr.ip = fr.block, label, 0

    def step(self, st, fr, s, worklist):
        env = fr.env
        self.stats.funcs.add(fr.fn.name)
        m = re.match(r"(%[\w.]+) = (.*)$", s)
        dst, rhs = (m.group(1), m.group(2)) if m else (None, s)
        op = rhs.split()[0]
        if op == "alloca":
            mm = re.match(r"alloca (.*?), align", rhs)
            t = mm.group(1)
            rid = self.new_region(st, self.m.sizeof(t), "%s:%s" % (fr.fn.name, dst))
            fr.allocas.append(rid)
            env[dst] = Ptr(rid, 0)
        elif op == "load":
            mm = re.match(r"load (.*?), (.*?)\* (\S+), align", rhs)
            p = self.operand(st, fr, mm.group(2) + "*", mm.group(3))
            env[dst] = self.load(st, p, mm.group(1))
        elif op == "store":
            mm = re.match(r"store (\S+) (getelementptr inbounds \(.*?\)|bitcast \(.*?\)), (.*?)\* (\S+), align", rhs) or \
                re.match(r"store (.*?) (\S+), (.*?)\* (\S+), align", rhs)
            v = self.operand(st, fr, mm.group(1), mm.group(2))
            p = self.operand(st, fr, mm.group(3) + "*", mm.group(4))
            self.store(st, p, mm.group(1), v)
        elif op == "getelementptr":
            mm = re.match(r"getelementptr (?:inbounds )?(.*?), (.*?)\* (\S+?)((?:, i\d+ \S+)+)$", rhs)
            base = self.operand(st, fr, mm.group(2) + "*", mm.group(3))
            idx = []
            for part in mm.group(4).split(",")[1:]:
                t, tok = part.split()
                idx.append(self.operand(st, fr, t, tok))
            env[dst] = self.gep(st, mm.group(1), base, idx, worklist)
        elif op in ("bitcast",):
            mm = re.match(r"bitcast (.*?) (\S+) to (.*)$", rhs)
            env[dst] = self.operand(st, fr, mm.group(1), mm.group(2))
        elif op in ("sext", "zext", "trunc"):
            mm = re.match(r"\w+ (i\d+) (\S+) to (i\d+)$", rhs)
            v = self.operand(st, fr, mm.group(1), mm.group(2))
            fb, tb = self.bits(mm.group(1)), self.bits(mm.group(3))
            if op == "sext":
                env[dst] = z3.SignExt(tb - fb, v)
            elif op == "zext":
                env[dst] = z3.ZeroExt(tb - fb, v)
            else:
                env[dst] = z3.Extract(tb - 1, 0, v)
        elif op in ("add", "sub", "and", "or", "xor", "shl", "lshr", "ashr", "sdiv", "srem", "udiv", "urem", "mul"):
            mm = re.match(r"\w+ (?:nsw |nuw |exact )*(i\d+) (\S+), (\S+)$", rhs)
            a = self.operand(st, fr, mm.group(1), mm.group(2))
            b = self.operand(st, fr, mm.group(1), mm.group(3))
            if op in ("sdiv", "srem", "udiv", "urem"):
                if self.feasible(st, b == 0):
                    raise Violation("memory", "division by zero")
            f = {"add": lambda: a + b, "sub": lambda: a - b, "and": lambda: a & b, "or": lambda: a | b, "xor": lambda: a ^ b,
                 "shl": lambda: a << b, "lshr": lambda: z3.LShR(a, b), "ashr": lambda: a >> b, "sdiv": lambda: a / b,
                 "srem": lambda: z3.SRem(a, b), "udiv": lambda: z3.UDiv(a, b), "urem": lambda: z3.URem(a, b), "mul": lambda: a * b}[op]
            env[dst] = z3.simplify(f())
        elif op == "icmp":
            mm = re.match(r"icmp (\w+) (.*?) (\S+), (\S+)$", rhs)
            t = mm.group(2)
            a = self.operand(st, fr, t, mm.group(3))
            b = self.operand(st, fr, t, mm.group(4))
            pred = mm.group(1)
            if isinstance(a, Ptr) or isinstance(b, Ptr):
                a = a if isinstance(a, Ptr) else NULL
                b = b if isinstance(b, Ptr) else NULL
                eq = (a.region == b.region and a.off == b.off)
                r = eq if pred == "eq" else (not eq)
                env[dst] = z3.BitVecVal(1 if r else 0, 1)
            else:
                c = {"eq": a == b, "ne": a != b, "slt": a < b, "sle": a <= b, "sgt": a > b, "sge": a >= b,
                     "ult": z3.ULT(a, b), "ule": z3.ULE(a, b), "ugt": z3.UGT(a, b), "uge": z3.UGE(a, b)}[pred]
                env[dst] = z3.If(c, z3.BitVecVal(1, 1), z3.BitVecVal(0, 1))
        elif op == "phi":
            mm = re.match(r"phi (.*?) (\[.*)$", rhs)
            t = mm.group(1)
            for val, lab in re.findall(r"\[ (\S+), (%\w+) \]", mm.group(2)):
                if lab == fr.prev or (fr.prev == "entry" and lab == "%0"):
                    env[dst] = self.operand(st, fr, t, val)
                    break
            else:
                raise ValueError("phi without matching predecessor in " + fr.fn.name)
        elif op == "select":
            mm = re.match(r"select i1 (\S+), (.*?) (\S+), (.*?) (\S+)$", rhs)
            c = self.operand(st, fr, "i1", mm.group(1))
            a = self.operand(st, fr, mm.group(2), mm.group(3))
            b = self.operand(st, fr, mm.group(4), mm.group(5))
            if isinstance(a, Ptr) or isinstance(b, Ptr):
                take = self.branch(st, c == 1, worklist)
                env[dst] = a if take else b
            else:
                env[dst] = z3.If(c == 1, a, b)
        elif op == "br":
            mm = re.match(r"br i1 (\S+), label (%\w+), label (%\w+)$", rhs)
            if mm:
                c = self.operand(st, fr, "i1", mm.group(1))
                take = self.branch(st, c == 1, worklist)
                self.goto(st, fr, mm.group(2) if take else mm.group(3))
            else:
                mm = re.match(r"br label (%\w+)$", rhs)
                self.goto(st, fr, mm.group(1))
            return
        elif op == "ret":
            mm = re.match(r"ret (void|(.*?) (\S+))$", rhs)
            v = None
            if mm.group(1) != "void":
                v = self.operand(st, fr, mm.group(2), mm.group(3))
            for rid in fr.allocas:
                st.regions[rid].freed = True
            st.frames.pop()
            if st.frames:
                caller = st.frames[-1]
                if caller.pending_dst is not None:
                    caller.env[caller.pending_dst] = v
                caller.ip += 1
            else:
                st.result = v
            return
        elif op == "call" or (op in ("tail", "notail") and rhs.split()[1] == "call"):
            self.do_call(st, fr, dst, rhs, worklist)
            return
        elif op == "unreachable":
            raise PathEnd()
        elif op == "switch":
            raise ValueError("switch not supported")
        else:
            raise ValueError("unsupported instruction: " + s)
        fr.ip += 1

    def branch(self, st, cond, worklist):
        """decide a symbolic condition; if both sides feasible, the false side is queued."""
        cond = z3.simplify(cond)
        if z3.is_true(cond):
            return True
        if z3.is_false(cond):
            return False
        t = self.feasible(st, cond)
        f = self.feasible(st, z3.Not(cond))
        if t and f:
            other = st.clone()
            other.pc.append(z3.Not(cond))
            other._resume_false = True
            # the clone re-executes the same branch instruction and will find only the false side feasible
            worklist.append(other)
            st.pc.append(cond)
            return True
        if t:
            return True
        if f:
            return False
        raise PathEnd()

    def do_call(self, st, fr, dst, rhs, worklist):
        mm = re.match(r"(?:tail |notail )?call (.*?) (?:\(.*?\) )?(@[\w.]+)\((.*)\)", rhs)
        if not mm:
            raise ValueError("indirect call: " + rhs)
        name = mm.group(2)
        args = []
        for a in self.m.split_args(mm.group(3)):
            toks = a.split()
            t = toks[0]
            if "getelementptr" in a:
                tok = a[a.index("getelementptr"):]
            elif "bitcast (" in a:
                tok = a[a.index("bitcast ("):]
            else:
                tok = toks[-1]
            args.append((t, self.operand(st, fr, t, tok)))
        if name in self.m.funcs and name not in self.stubs.override:
            callee = self.m.funcs[name]
            nf = Frame(callee)
            for (pt, pn), (_, v) in zip(callee.params, args):
                nf.env[pn] = v
            fr.pending_dst = dst
            nf.pending_dst = None
            st.frames.append(nf)
            key = (len(st.frames), callee.name, "entry")
            return
        res = self.stubs.call(self, st, name, args, worklist)
        if dst is not None:
            fr.env[dst] = res
        fr.ip += 1

Frame.pending_dst = None
