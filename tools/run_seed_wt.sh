#!/bin/bash
# run_seed_wt.sh <seed-dir> <prop> [tier]: applies the seeded patch in a scratch worktree of /repo
# (under $TMPDIR), runs the check against that tree without writing evidence, removes the worktree.
D="$(cd "$1" && pwd)"; P="$2"; T="${3:-quick}"; shift; shift; [ $# -gt 0 ] && shift   # remaining args are passed to the check
WT=$(mktemp -d /tmp/seedwt-XXXXXX); rmdir $WT
git -C /repo worktree add -q --detach $WT HEAD || exit 2
trap 'git -C /repo worktree remove --force '$WT' 2>/dev/null; rm -rf '$WT'; git -C /repo worktree prune' EXIT
git -C $WT apply "$D/patch.diff" || { echo "apply failed"; exit 2; }
cd /verif
if [ "$P" = C20 ]; then
  timeout 3000 ./check $P $T --repo $WT --no-evidence "$@" > /tmp/seedrun-$P-$$.log 2>&1; RC=$?
else
  timeout 3000 ./check $P $T -repo $WT -evidence=false -crosscheck off "$@" > /tmp/seedrun-$P-$$.log 2>&1; RC=$?
fi
grep -E "^(VIOLATION|KNOWN|RESULT|  INCOMPLETE)" /tmp/seedrun-$P-$$.log | cut -c1-220 | head -12
rm -f /tmp/seedrun-$P-$$.log
echo "exit=$RC"
