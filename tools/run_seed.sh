#!/bin/bash
# run_seed.sh <seed-dir> <prop> [tier]: applies the seeded patch to /repo, runs the check, reverts.
D="$(cd "$1" && pwd)"; P="$2"; T="${3:-quick}"
cd /repo && git diff --quiet || { echo "repo dirty"; exit 2; }
git -C /repo apply "$D/patch.diff" || { echo "apply failed"; exit 2; }
trap 'git -C /repo checkout -q -- .; git -C /repo clean -fdq' EXIT
cd /verif && timeout 3000 ./check "$P" "$T" > /tmp/seedrun-$P.log 2>&1; RC=$?
grep -E "^(VIOLATION|KNOWN|RESULT|  INCOMPLETE)" /tmp/seedrun-$P.log | cut -c1-220 | head -12
echo "exit=$RC"
