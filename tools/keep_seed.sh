#!/bin/bash
# keep_seed.sh <seed-dir> <prop> <detected-by|MISSED> : copies a confirmed seeded change into /verif/seeded/<id>/
D="$1"; P="$2"; DET="$3"; ID=$(basename "$D")
mkdir -p /verif/seeded/$ID && cp "$D"/patch.diff "$D"/*.go "$D"/*.sh "$D"/*.c /verif/seeded/$ID/ 2>/dev/null
python3 - "$D/meta.json" "/verif/seeded/$ID/meta.json" "$P" "$DET" <<'PY'
import json,sys
m=json.load(open(sys.argv[1])); m['property']=sys.argv[3]
m['confirmed']="tools/confirm_seed.sh in a scratch worktree of /repo HEAD: builds, existing suite passes with the change, demo fails with it and passes without it"
m['detected_by']=sys.argv[4]
json.dump(m,open(sys.argv[2],'w'),indent=1)
PY
