#!/bin/bash
# confirm_seed.sh <seed-dir>: confirms a seeded change in a scratch worktree of /repo HEAD:
# builds, existing tests pass, demo fails with the change and passes without it.
set -u
export GOFLAGS=-mod=mod GOPROXY=off GOSUMDB=off GOTOOLCHAIN=local
D="$(cd "$1" && pwd)"
WT=$(mktemp -d /tmp/wtconfirm.XXXX); rmdir "$WT"
git -C /repo worktree add -q --detach "$WT" HEAD || exit 2
trap 'git -C /repo worktree remove --force "$WT" >/dev/null 2>&1; rm -rf "$WT"' EXIT
DEMO=$(python3 -c "import json;print(json.load(open('$D/meta.json'))['demo_file'])")
CMD=$(python3 -c "import json;print(json.load(open('$D/meta.json'))['demo_cmd'])")
SRC=$(ls "$D" | grep -v -e "^patch.diff$" -e "^meta.json$" | head -1); SRC="$D/$SRC"
cd "$WT"
git apply "$D/patch.diff" || { echo "RESULT apply-failed"; exit 1; }
go build ./... || { echo "RESULT build-failed"; exit 1; }
if go test -vet=off -count=1 ./... >/tmp/confirm_tests.log 2>&1; then echo "tests-with-change: pass"; else echo "tests-with-change: FAIL"; tail -5 /tmp/confirm_tests.log; echo "RESULT tests-fail"; exit 1; fi
mkdir -p "$(dirname "$DEMO")"; cp "$SRC" "$DEMO"
if timeout 600 bash -c "$CMD" >/tmp/confirm_demo1.log 2>&1; then echo "demo-with-change: PASS (bad)"; R1=bad; else echo "demo-with-change: fails (good)"; R1=ok; fi
git checkout -q -- . ; 
if timeout 600 bash -c "$CMD" >/tmp/confirm_demo2.log 2>&1; then echo "demo-clean: passes (good)"; R2=ok; else echo "demo-clean: FAILS (bad)"; tail -5 /tmp/confirm_demo2.log; R2=bad; fi
[ $R1 = ok ] && [ $R2 = ok ] && echo "RESULT confirmed" || echo "RESULT not-confirmed"
