#!/usr/bin/env python3
# Regenerates /verif/MANIFEST.json from the table below (claimed checks) + properties.jsonl (ids).
import json, os
V = '/verif'
ids = [json.loads(l)['id'] for l in open(V + '/properties.jsonl')]
TECH = "bounded symbolic execution of the real go/ssa (gosym) with SMT (z3) discharge of assertions; native replay of counterexamples"
claimed = {
 "C13": dict(design="5/C13",
   text="Bounded symbolic model checking of the real sasl codec (Encode/Decode/Marshal/Unmarshal, the split function and bufio.Scanner executed from go/ssa): for every byte content within the stated length bounds and every fragmentation within the stated read bounds, each assertion (exact wire format vs a reference encoder, round trip, re-encode = consumed prefix, fragment independence, response grammar) is discharged by the simplifier or z3; sat answers are replayed natively before being reported.",
   note="Trusted: gosym's SSA semantics and simplifier (cross-checked by native replay of witnesses/counterexamples), z3 5.1.0; fmt.Errorf modelled natively. Bounds: streams <= 10 bytes (quick) / 13 (thorough), field lengths {0,1,2,255,256,257}, <= 3/4 non-empty reads. The PAM C encoder clause is covered by C20's llsym check when present."),
 "C05": dict(design="5/C05",
   text="Bounded symbolic model checking of (*Server).handleConnection on a scripted net.Conn: every client byte stream within the bound, delivered in up to 2 reads and ended by EOF or a read error, with an arbitrary callback verdict and message/error lengths at the part-size boundaries; asserts at-most-one callback with exactly the decoded fields, exactly one length-prefixed reply, one close, positive reply only if decoded and approved, and decodability of every reply by Response.Decode and by the PAM reader rule.",
   note="Trusted: as C13. net.Conn is a harness recorder (writes never fail). The accept loop's goroutine-per-connection is covered by the two-connection non-interference unit, not by parallel execution."),
}
NA_DEFAULT = "check not built yet (framework under construction); see DESIGN.md section 5 for the plan"
na_reason = {}
checks = []
for i in ids:
    if i in claimed:
        c = claimed[i]
        checks.append({
            "property_id": i,
            "quick_cmd": "./check %s quick" % i,
            "thorough_cmd": "./check %s thorough" % i,
            "evidence_file": "/verif/evidence/%s.json" % i,
            "replay_cmd_template": "./check %s quick -unit <unit-from-replay-file>   # replay file: {path}" % i,
            "engine": c.get("engine", "gosym"),
            "level_claimed": {"category": "model_checking", "text": c["text"], "design_ref": c["design"]},
            "level_note": c["note"],
            "technique": c.get("tech", TECH),
        })
m = {"version": 1, "setup_cmd": "./setup.sh",
     "hooks": {"guard": "verif", "enable": "none needed: harnesses are injected with go/packages overlays (engine) and go test -overlay (native replay); /repo carries no hook code",
               "baseline_off_cmd": "cd /repo && GOFLAGS=-mod=mod GOPROXY=off go test -vet=off -count=1 ./...", "source_commits": [], "add_only": True},
     "engines": [{"name": "gosym", "path": "/verif/engine", "serves_properties": sorted(k for k, v in claimed.items() if v.get("engine", "gosym") == "gosym"),
                  "kind_free_text": "path-forking symbolic executor for go/ssa (symbolic content, concrete shape) emitting SMT-LIB2 to a long-lived z3 process per worker"}],
     "checks": checks,
     "not_applicable": [{"property_id": i, "reason": na_reason.get(i, NA_DEFAULT)} for i in ids if i not in claimed],
     "notes": "Technique family: solver-based checking of the real code. Exit codes: 0 = held within bounds, 1 = VIOLATION (replayed natively), 2 = inconclusive (engine limit / unknown / not reproduced). See DESIGN.md."}
json.dump(m, open(V + '/MANIFEST.json', 'w'), indent=1)
print("claimed:", sorted(claimed))
