#!/usr/bin/env python3
# Regenerates /verif/MANIFEST.json from the table below (claimed checks) + properties.jsonl (ids).
import json, os
V = '/verif'
ids = [json.loads(l)['id'] for l in open(V + '/properties.jsonl')]
TECH = "bounded symbolic execution of the real go/ssa (gosym) with SMT (z3) discharge of assertions; native replay of counterexamples"
claimed = {
 "C13": dict(design="5/C13",
   text="Bounded symbolic model checking of the real sasl codec (Encode/Decode/Marshal/Unmarshal, the split function and bufio.Scanner executed from go/ssa): for every byte content within the stated length bounds and every fragmentation within the stated read bounds, each assertion (exact wire format vs a reference encoder, round trip, re-encode = consumed prefix, fragment independence, response grammar) is discharged by the simplifier or z3; sat answers are replayed natively before being reported.",
   note="Trusted: gosym's SSA semantics and simplifier (cross-checked by native replay of witnesses/counterexamples), z3 5.1.0; fmt.Errorf modelled natively. Bounds: streams <= 10 bytes (quick) / 13 (thorough), field lengths {0,1,2,255,256,257}, <= 3/4 non-empty reads. The PAM C encoder clause is covered by C20's llsym check when present."),
 "C05": dict(design="5/C05",
   text="Bounded symbolic model checking of (*Server).handleConnection on a scripted net.Conn: every client byte stream within the bound, delivered in up to 2 reads and ended by EOF or a read error, with an arbitrary callback verdict and message/error lengths at the part-size boundaries; asserts at-most-one callback with exactly the decoded fields, exactly one length-prefixed reply, one close, positive reply only if decoded and approved, and decodability of every reply by Response.Decode and by the PAM reader rule.",
   note="Trusted: as C13. net.Conn is a harness recorder (writes never fail). The accept loop's goroutine-per-connection is covered by the two-connection non-interference unit, not by parallel execution."),
 "C01": dict(design="5/C01",
   text="Bounded symbolic model checking of the store library over an in-engine file system with the hash primitives as collision-free uninterpreted functions: every history of 2 (quick) / 3 (thorough) add/update/set-admin/remove operations on two users with arbitrary password bytes, followed by every observation (Authenticate with the written, the other, and near-miss passwords; Exists; List), compared with a sequential specification; plus long (>= 1 KiB) passwords. Password equality is taken modulo the PBKDF2 key rule for scrypt sets, exactly as the property states.",
   note="Trusted: gosym semantics; vfs model of POSIX; UF idealisation of argon2id/scrypt/HMAC/SHA-256 (collision-free) and of crypto/rand (no repeats); symbolic clock. Histories longer than the bound and user names other than two fixed valid ones are outside (names: C03)."),
 "C02": dict(design="5/C02",
   text="Bounded symbolic model checking of Authenticate/List/ListFull/AddUser/UpdateUser/RemoveUser on directories whose files the harness writes itself: records composed per SCHEMA.md by an independent implementation (x/crypto as reference) with every digest mutation class, 14 structured field mutations, arbitrary raw contents and valid-prefix + arbitrary tails within the byte bounds, lines longer than 4096/8192 bytes, and the schema's table for unsupported hashes; no success, no panic, files byte-identical after refused updates.",
   note="Trusted: as C01. Raw contents are bounded to 4..8 bytes and prefix tails to 4..7 bytes (quick) because each arbitrary byte forks the parser; larger lines are covered only in the padded-record family."),
 "C03": dict(design="5/C03",
   text="Bounded symbolic model checking of every store entry point with an arbitrary byte string as user name (optionally behind a prefix that reaches a sibling store), on a tree containing the store under test and a sibling store: invalid names fail or are no-ops and never authenticate; every open/create/rename/unlink/mkdir event of the modelled file system stays within <base>, <base>/.tmp and <base>/<valid>.user|.admin; the sibling store is byte-identical afterwards; invalid-named files never satisfy Check and are never listed.",
   note="Trusted: as C01, plus the engine-side confinement oracle over the vfs event trace (not natively observable; natively the sibling-snapshot oracle is used). Names longer than prefix + 3 (quick) / 5 (thorough) arbitrary bytes, symlinks and NAME_MAX are outside; frontends are covered by C04's wiring units."),
 "C14": dict(design="5/C14",
   text="Bounded symbolic model checking of the bytes written by AddUser/UpdateUser for stores whose default set has symbolic argon2id parameters (time, memory, threads) / scrypt parameters (cost, r, p incl. defaulted and negative r/p, arbitrary HMAC key): the file content is parsed by a reference splitter and compared field by field with the schema (format id, current unix time, default set id, canonical base64url), the digest with an independent recomputation through the x/crypto primitives, the salt with the structural freshness oracle, and every written byte with the secret-dependence walk.",
   note="Trusted: UF idealisation (a digest computed from any other argument tuple differs), the engine-side structural oracles vpFreshBytes / vpSecretFree (natively replaced by trivially-true stubs, so counterexamples of those two assertions are model-level), symbolic clock. The YAML mapping of parameters is outside this check."),
 "C15": dict(design="5/C15",
   text="Bounded symbolic model checking of (a) UpdateUser / SetAdmin on records with arbitrary auxiliary bytes and a bystander file: auxiliary data, extension, bystander and work area are preserved; (c) every read-only call (Authenticate incl. upgradeable hashes, Exists, List, ListFull, Check) emits no mutating file-system event and leaves the directory byte-identical.",
   note="Trusted: as C01. Clause (b) of the property (single injected system-call failures) is not yet claimed: see DESIGN.md; frontends are covered through C04's wiring."),
 "C16": dict(design="5/C16",
   text="Bounded symbolic model checking of Check() against a reference predicate on every directory of up to 2 (quick) / 3 (thorough) entries drawn from a menu of valid/invalid names, files or sub-directories, supported/unsupported/empty contents, .tmp as directory or file, under every listing order; Init succeeds exactly on empty directories and yields a valid store; one arbitrary operation from a valid store preserves validity, never leaves two files for one user and leaves the work area empty.",
   note="Trusted: as C01; listing order modelled as a free permutation. CLI exit-status wiring is outside this check."),
 "C08": dict(design="5/C08",
   text="Solver-decided crash analysis of the file-system event trace produced by symbolically executing the real AddUser / UpdateUser / Init over the in-engine POSIX model: the crash instant, the persistence bit of every directory-entry effect and the persisted prefix of every written chunk are solver variables (process-kill model: everything before the crash applied; power-loss model: un-fsynced data and directory operations lost in any allowed combination). Obligations: the target name is absent / an empty reservation (add), bound to the complete old inode, or to the complete new inode; no hash file is modified in place; only the target's names and the work area are touched.",
   note="Trusted: the vfs event trace equals the syscall trace (checked against strace in probes); the abstract persistence model (rename atomic; fsync barriers per inode / directory). Content of the new record is C14/C15's subject. Counterexamples are model-level until the strace trace validation is wired (then exit 1); until then a violated obligation is reported as inconclusive (exit 2)."),
 "C09": dict(design="5/C09",
   text="Same machinery as C08 with the crash instant fixed after the operation's successful return: for AddUser, UpdateUser, Init, SetAdmin and RemoveUser every persistence assignment allowed by the model shows the acknowledged effect, and no record is bound to its final name before its content is durable.",
   note="Trusted: as C08."),
 "C07": dict(design="5/C07",
   text="Bounded symbolic model checking of webSessionFactory (NewWebSessionFactory, Generate, Check, splitCheckToken) with AES-GCM as an ideal AEAD and a symbolic clock: for two instances and the strings listed in the bounds (issued tokens, splices within and across instances, single-character changes, truncations, extensions at text and decoded level, arbitrary text), acceptance implies that the decoded nonce and ciphertext are those of a token issued by this instance, within the lifetime, with the issued identity; arbitrary plaintexts sealed with the factory's own AEAD are accepted only if they parse per the reference grammar inside the time window; nonces are fresh random values; issuing writes no pre-existing state.",
   note="Trusted: ideal-AEAD model (INT-CTXT), crypto/rand freshness, symbolic clock with 1 s guard band, lifetime 3 s instead of 600 s (the constant is outside this check). Data races are outside the model; the write-set oracle gives thread-safety of issuing by absence of shared writes."),
 "C04": dict(design="5/C04",
   text="Bounded symbolic model checking of the wiring of every in-process frontend to the store request interface: saslauthd callback, LDAP Bind handler (name cut at the first '@'), HTTP basic-auth and API-authenticate handlers and (*Store).Authenticate are driven with arbitrary credential bytes against a scripted store behind the real channel interface: the store is asked exactly once with byte-identical name and password and the frontend accepts iff the store accepted without error; the SASL transport delivers fields up to 256 bytes byte-identical to the callback.",
   note="Trusted: paired model of net/http basic-auth, JSON document model, harness goroutine as dispatcher. Outside: third-party byte-level parsers, listener start-up, the CLI authenticate command (cli.Context / NewStore wiring not encoded)."),
 "C06": dict(design="5/C06",
   text="Bounded symbolic model checking of the HTTP API handlers as a one-step authorisation property: for each endpoint, every credential kind (none, garbage, admin/user/empty-user session, expired, other-instance, tampered) and request-body shape within the bounds, with an arbitrary scripted store behind the real Store interface, a management request reaches the store only if the reference authorisation predicate holds and carries exactly the request's arguments; every other request gets a non-success status, discloses no list and sends no mutating store request; a token is issued only after a successful authentication and names that user and the store-reported flag.",
   note="Trusted: JSON document model honouring the struct tags of the loaded source, ideal AEAD, symbolic clock (lifetime 3 s), harness dispatcher. 'Store unchanged' is established as 'no mutating store request sent'. Routing, HTTP methods and TLS are outside."),
 "C10": dict(design="5/C10",
   text="Bounded symbolic model checking of reachable wedge states of the real agent (NewStore with its dispatcher, hooks-runner and upgrader goroutines, executed by a cooperative scheduler in which every block / select choice is a solver-explored decision): (a) queue-state step: from every occupancy 0..10 of the update queue, the dispatcher's authenticate step for an upgradeable login never blocks (upgrades off / local); (b) bounded runs: two concurrent clients, all schedules at blocking points and all select choices, every request is answered and the agent still serves afterwards; (c) the saslauthd accept loop survives temporary accept errors.",
   note="Trusted: goroutines interact only through channels (no data races), scheduler model (switches at blocking operations; preemption-bounded mode where stated). Outside: select fairness, remote-master stalls beyond queue capacity, more than two clients."),
 "C11": dict(design="5/C11",
   text="Bounded symbolic model checking of concurrent histories on the real agent: login(old) racing update(new) under every schedule and select choice, with upgrades off/local - once the change is acknowledged and the agent idle, only the new password works; two concurrent clients among {authenticate right/wrong, update, remove, add} on one user - the responses and the quiescent store state match one of the two sequential orders; two concurrent logins under preemption-bounded (2) fine-grained scheduling each receive their own answer; plus the static single-writer check on the SSA (no goroutine other than the dispatcher reaches the store library).",
   note="Trusted: as C10. The static check is a supporting (solver-free) analysis of the loaded SSA; schedule counterexamples that the native scheduler does not reproduce within 25 retries are reported as schedule-level."),
 "C12": dict(design="5/C12",
   text="Bounded symbolic model checking of hash upgrades through the real agent: a login with the right / wrong / empty password of a user whose record (with auxiliary bytes) is under a non-default or default set, with upgrades off / local; after the agent settles the record is untouched unless an upgrade was due, in which case it is rewritten under the default set for the same password with auxiliary data, extension and admin flag unchanged and is no longer upgradeable.",
   note="Trusted: as C10/C01. The upgradeable flag itself is checked in C02 (ForeignRecord). Remote upgrade payload is outside (net/http client not encoded)."),
 "C17": dict(design="5/C17",
   text="Bounded symbolic model checking of the policy code: condition strings from the stated grammar (menus plus one arbitrary-bytes slot at a time) are accepted iff the reference parser accepts them, with exactly its comparator and threshold, and the verdict on arbitrary integer strengths equals the documented comparison (float comparisons in the SMT FP theory); unknown types and bad conditions are constructor errors; Init / Add / Update through the real agent reach the store only if the policy approves without error, a refusal is an error and changes nothing; NewStore fails on a policy error.",
   note="Trusted: zxcvbn's scorer replaced by arbitrary strength values; yaml/json document models; ASCII conditions only."),
 "C18": dict(design="5/C18",
   text="Bounded symbolic model checking of the configuration loader against a reference validity predicate over the stated configuration space (sets, ids, algorithms, keys, costs, defaults, unknown keys, malformed document), of every accepted parameter set at the edge values (never a panic), and of reload through the real agent (SIGHUP delivered to the registered channel): the agent switches to the complete new configuration iff it loads and its directory passes the check, otherwise the complete previous configuration keeps serving.",
   note="Trusted: yaml.v3 modelled as a document tree mapped through the struct tags of the loaded source with KnownFields honoured; argon2/scrypt panic/error conditions as in their sources; one reload."),
 "C19": dict(design="5/C19",
   text="Bounded symbolic model checking of the hook machinery: runAllHooks on a directory with symbolic mode bits and 1..2 entries (names, kinds, symbolic modes) starts exactly the eligible hooks with the single argument 'update' and WHAWTY_AUTH_STORE set; the real notify/timer loop (HooksCaller.run under the cooperative scheduler, virtual timers) on every sequence of 2..4 notification / expiry / racing events never leaves a change un-notified and never runs more than the leading round without an expiry nor more than two rounds per interval; a hanging hook is killed by its waiter goroutine when its timer fires while the caller returned at once; add/update/set-admin notify iff they succeeded, remove always, logins never.",
   note="Trusted: os/exec recorder and virtual time.Timer models; symbolic file modes in the vfs. The timer units are symbolic only (their assertions are model-level); the eligibility unit replays natively with real scripts."),
}
NA_DEFAULT = "check not built yet (framework under construction); see DESIGN.md section 5 for the plan"
na_reason = {}
checks = []
for i in ids:
    if i in claimed:
        c = claimed[i]
        checks.append({
            "property_id": i,
            "quick_cmd": "./check %s quick" % i,
            "thorough_cmd": "./check %s thorough" % i,
            "evidence_file": "/verif/evidence/%s.json" % i,
            "replay_cmd_template": "./check %s quick -unit <unit-from-replay-file>   # replay file: {path}" % i,
            "engine": c.get("engine", "gosym"),
            "level_claimed": {"category": "model_checking", "text": c["text"], "design_ref": c["design"]},
            "level_note": c["note"],
            "technique": c.get("tech", TECH),
        })
m = {"version": 1, "setup_cmd": "./setup.sh",
     "hooks": {"guard": "verif", "enable": "none needed: harnesses are injected with go/packages overlays (engine) and go test -overlay (native replay); /repo carries no hook code",
               "baseline_off_cmd": "cd /repo && GOFLAGS=-mod=mod GOPROXY=off go test -vet=off -count=1 ./...", "source_commits": [], "add_only": True},
     "engines": [{"name": "gosym", "path": "/verif/engine", "serves_properties": sorted(k for k, v in claimed.items() if v.get("engine", "gosym") == "gosym"),
                  "kind_free_text": "path-forking symbolic executor for go/ssa (symbolic content, concrete shape) emitting SMT-LIB2 to a long-lived z3 process per worker"}],
     "checks": checks,
     "not_applicable": [{"property_id": i, "reason": na_reason.get(i, NA_DEFAULT)} for i in ids if i not in claimed],
     "notes": "Technique family: solver-based checking of the real code. Exit codes: 0 = held within bounds, 1 = VIOLATION (replayed natively), 2 = inconclusive (engine limit / unknown / not reproduced). See DESIGN.md."}
json.dump(m, open(V + '/MANIFEST.json', 'w'), indent=1)
print("claimed:", sorted(claimed))
