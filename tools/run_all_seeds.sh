#!/bin/bash
# runs every kept seeded change against its property's quick check (in a scratch worktree, /repo
# itself is not touched); prints one line per seed
cd /verif
for d in seeded/C*; do
  s=$(basename $d); p=${s%-*}
  out=$(./tools/run_seed_wt.sh $d $p 2>&1)
  rc=$(echo "$out" | grep -o "exit=[0-9]*")
  echo "$s $rc $(echo "$out" | grep -c '^VIOLATION') violations"
done
