#!/bin/bash
# run_benign.sh [k...]: runs every quick check against each kept benign (property-preserving) change
# in a scratch worktree; prints one line per (change, property); anything but rc=0 needs a look.
cd /verif
ks="$@"; [ -z "$ks" ] && ks="1 2 3 4 5 6 7 8 9 10 11 12"
for k in $ks; do
  D=/verif/seeded/benign/B-$k
  WT=$(mktemp -d /tmp/benignwt-XXXXXX); rmdir $WT
  git -C /repo worktree add -q --detach $WT HEAD || continue
  git -C $WT apply $D/patch.diff || { echo "B-$k apply failed"; git -C /repo worktree remove --force $WT; continue; }
  for p in C01 C02 C03 C04 C05 C06 C07 C08 C09 C10 C11 C12 C13 C14 C15 C16 C17 C18 C19 C20; do
    if [ $p = C20 ]; then out=$(timeout 3000 ./check $p quick --repo $WT --no-evidence 2>&1); rc=$?
    else out=$(timeout 3000 ./check $p quick -repo $WT -evidence=false 2>&1); rc=$?; fi
    echo "B-$k $p rc=$rc $(echo "$out" | grep -c '^VIOLATION') violations"
  done
  git -C /repo worktree remove --force $WT; rm -rf $WT
done
