package sym

import (
	"fmt"
	"go/types"

	"golang.org/x/tools/go/ssa"
)

// Value is one of:
//
//	*Term       bool / integer scalars (and symbolic float64 with sort SFP64)
//	float64     concrete floats
//	Str         string: byte terms, concrete length
//	Slice       (obj, off, len, cap), nil when Obj == nil
//	Ptr         (obj, off), nil when Obj == nil; optional symbolic element index
//	StructV     field values
//	ArrayV      element values
//	Tuple       multiple results
//	Iface       dynamic type + value; nil interface when T == nil
//	*MapObj     nil map when nil pointer
//	*Closure    nil func when nil pointer
//	*ChanObj    nil chan when nil pointer
//	PtrInt      a pointer travelling through uintptr/unsafe.Pointer
type Value interface{}

type Str struct{ B []*Term }

type Obj struct {
	Slots  []Value
	Frozen bool
	ID     int
	Tag    interface{} // opaque model payload (vfs file, regexp, ...)
	Typ    types.Type  // allocation type (informational)
	// strings made from this array without copying (unsafe.String): a later write to the array is
	// visible through them and through their substrings, as it is in memory
	aliases []strAlias
}

type strAlias struct {
	off int
	b   []*Term
}

type Ptr struct {
	Obj *Obj
	Off int
	// symbolic element selection (read-only table lookups): effective slot = Off + Sym (Sym in [0,N))
	Sym *Term
	N   int
}

type Slice struct {
	Obj *Obj
	Off int
	Len int
	Cap int
}

type StructV []Value
type ArrayV []Value
type Tuple []Value

type Iface struct {
	T types.Type
	V Value
}

type mapEntry struct {
	K, V Value
}

type MapObj struct {
	Entries []mapEntry
	Frozen  bool
	KT      types.Type
}

type Closure struct {
	Fn   *ssa.Function
	Env  []Value
	Intr string // non-empty: native intrinsic by name (for synthesized function values)
}

type PtrInt struct{ P Ptr }

func (s Str) Len() int { return len(s.B) }

// Concrete returns the Go string if every byte is constant.
func (s Str) Concrete() (string, bool) {
	b := make([]byte, len(s.B))
	for i, t := range s.B {
		if !t.IsConst() {
			return "", false
		}
		b[i] = byte(t.Val)
	}
	return string(b), true
}

// Show renders a string for diagnostics ('?' for symbolic bytes).
func (s Str) Show() string {
	b := make([]byte, len(s.B))
	for i, t := range s.B {
		if t.IsConst() {
			b[i] = byte(t.Val)
		} else {
			b[i] = '?'
		}
	}
	return string(b)
}

func under(t types.Type) types.Type { return types.Unalias(t).Underlying() }

// slotCount returns the number of scalar slots a value of type t occupies in an Obj.
func (in *Interp) slotCount(t types.Type) int {
	switch u := under(t).(type) {
	case *types.Struct:
		if n, ok := in.slotCache[u]; ok {
			return n
		}
		n := 0
		for i := 0; i < u.NumFields(); i++ {
			n += in.slotCount(u.Field(i).Type())
		}
		in.slotCache[u] = n
		return n
	case *types.Array:
		return int(u.Len()) * in.slotCount(u.Elem())
	}
	return 1
}

func (in *Interp) fieldOffset(st *types.Struct, idx int) int {
	off := 0
	for i := 0; i < idx; i++ {
		off += in.slotCount(st.Field(i).Type())
	}
	return off
}

func intWidth(b *types.Basic) (w int, signed bool) {
	switch b.Kind() {
	case types.Int8:
		return 8, true
	case types.Int16:
		return 16, true
	case types.Int32:
		return 32, true
	case types.Int64, types.Int, types.UntypedInt:
		return 64, true
	case types.UntypedRune:
		return 32, true
	case types.Uint8:
		return 8, false
	case types.Uint16:
		return 16, false
	case types.Uint32:
		return 32, false
	case types.Uint64, types.Uint, types.Uintptr:
		return 64, false
	}
	return 0, false
}

// zero returns the zero Value of type t.
func (in *Interp) zero(t types.Type) Value {
	switch u := under(t).(type) {
	case *types.Basic:
		switch {
		case u.Info()&types.IsBoolean != 0:
			return in.ts.False
		case u.Info()&types.IsInteger != 0:
			w, _ := intWidth(u)
			return in.ts.Const(w, 0)
		case u.Info()&types.IsFloat != 0:
			return float64(0)
		case u.Info()&types.IsString != 0:
			return Str{}
		case u.Kind() == types.UnsafePointer:
			return Ptr{}
		case u.Kind() == types.UntypedNil:
			return nil
		case u.Info()&types.IsComplex != 0:
			return complex128(0)
		}
	case *types.Pointer:
		return Ptr{}
	case *types.Slice:
		return Slice{}
	case *types.Struct:
		v := make(StructV, u.NumFields())
		for i := range v {
			v[i] = in.zero(u.Field(i).Type())
		}
		return v
	case *types.Array:
		n := int(u.Len())
		v := make(ArrayV, n)
		if n > 0 {
			z := in.zero(u.Elem())
			for i := range v {
				v[i] = z // immutable values: sharing is fine
			}
		}
		return v
	case *types.Interface:
		return Iface{}
	case *types.Map:
		return (*MapObj)(nil)
	case *types.Signature:
		return (*Closure)(nil)
	case *types.Chan:
		return (*ChanObj)(nil)
	case *types.Tuple:
		v := make(Tuple, u.Len())
		for i := range v {
			v[i] = in.zero(u.At(i).Type())
		}
		return v
	}
	if b, ok := t.(*types.Basic); ok && b.Kind() == types.Invalid {
		return nil // unused component of a range/next tuple
	}
	panic(engineErr("zero: unsupported type %v", t))
}

// newObj allocates an object holding one value of type t (zeroed).
func (in *Interp) newObj(t types.Type) *Obj {
	n := in.slotCount(t)
	o := &Obj{Slots: make([]Value, n), ID: in.nextObj, Typ: t}
	in.nextObj++
	in.zeroInto(o, 0, t)
	return o
}

func (in *Interp) zeroInto(o *Obj, off int, t types.Type) {
	switch u := under(t).(type) {
	case *types.Struct:
		for i := 0; i < u.NumFields(); i++ {
			ft := u.Field(i).Type()
			in.zeroInto(o, off, ft)
			off += in.slotCount(ft)
		}
	case *types.Array:
		n := int(u.Len())
		es := in.slotCount(u.Elem())
		if es == 1 {
			if n > 0 {
				z := in.zero(u.Elem())
				for i := 0; i < n; i++ {
					o.Slots[off+i] = z
				}
			}
			return
		}
		for i := 0; i < n; i++ {
			in.zeroInto(o, off+i*es, u.Elem())
		}
	default:
		o.Slots[off] = in.zero(t)
	}
}

// newArray allocates a backing array of n elements of type et.
func (in *Interp) newArray(et types.Type, n int) *Obj {
	es := in.slotCount(et)
	o := &Obj{Slots: make([]Value, n*es), ID: in.nextObj}
	in.nextObj++
	if es == 1 {
		if n > 0 {
			z := in.zero(et)
			for i := range o.Slots {
				o.Slots[i] = z
			}
		}
	} else {
		for i := 0; i < n; i++ {
			in.zeroInto(o, i*es, et)
		}
	}
	return o
}

type undoRec struct {
	obj *Obj
	idx int
	old Value
	m   *MapObj
	ent []mapEntry
}

func (in *Interp) setSlot(o *Obj, idx int, v Value) {
	if in.writeMark > 0 && o.ID < in.writeMark && o.ID >= 0 {
		in.sharedWrites++
	}
	if o.Frozen && in.undoOn {
		in.undo = append(in.undo, undoRec{obj: o, idx: idx, old: o.Slots[idx]})
	}
	o.Slots[idx] = v
	for _, al := range o.aliases {
		if idx >= al.off && idx < al.off+len(al.b) {
			if t, ok := v.(*Term); ok {
				al.b[idx-al.off] = t
			}
		}
	}
}

func (in *Interp) rollback() {
	for i := len(in.undo) - 1; i >= 0; i-- {
		r := in.undo[i]
		if r.m != nil {
			r.m.Entries = r.ent
		} else {
			r.obj.Slots[r.idx] = r.old
		}
	}
	in.undo = in.undo[:0]
	for _, o := range in.onceUndo {
		o.Tag = nil
	}
	in.onceUndo = in.onceUndo[:0]
}

func (in *Interp) load(p Ptr, t types.Type) Value {
	if p.Obj == nil {
		panic(in.goPanicStr("runtime error: invalid memory address or nil pointer dereference"))
	}
	if p.Sym != nil {
		return in.loadSym(p, t)
	}
	return in.loadAt(p.Obj, p.Off, t)
}

func (in *Interp) loadAt(o *Obj, off int, t types.Type) Value {
	switch u := under(t).(type) {
	case *types.Struct:
		v := make(StructV, u.NumFields())
		for i := range v {
			ft := u.Field(i).Type()
			v[i] = in.loadAt(o, off, ft)
			off += in.slotCount(ft)
		}
		return v
	case *types.Array:
		n := int(u.Len())
		es := in.slotCount(u.Elem())
		v := make(ArrayV, n)
		if es == 1 {
			copy(v, o.Slots[off:off+n])
			return v
		}
		for i := range v {
			v[i] = in.loadAt(o, off+i*es, u.Elem())
		}
		return v
	}
	if off >= len(o.Slots) {
		panic(engineErr("load out of object bounds (off %d, size %d, type %v)", off, len(o.Slots), t))
	}
	return o.Slots[off]
}

func (in *Interp) store(p Ptr, t types.Type, v Value) {
	if p.Obj == nil {
		panic(in.goPanicStr("runtime error: invalid memory address or nil pointer dereference"))
	}
	if p.Sym != nil {
		p = in.concPtr(p)
	}
	in.storeAt(p.Obj, p.Off, t, v)
}

func (in *Interp) storeAt(o *Obj, off int, t types.Type, v Value) {
	switch u := under(t).(type) {
	case *types.Struct:
		sv := v.(StructV)
		for i := range sv {
			ft := u.Field(i).Type()
			in.storeAt(o, off, ft, sv[i])
			off += in.slotCount(ft)
		}
		return
	case *types.Array:
		av := v.(ArrayV)
		es := in.slotCount(u.Elem())
		for i := range av {
			in.storeAt(o, off+i*es, u.Elem(), av[i])
		}
		return
	}
	if off >= len(o.Slots) {
		panic(engineErr("store out of object bounds (off %d, size %d, type %v)", off, len(o.Slots), t))
	}
	in.setSlot(o, off, v)
}

// loadSym reads through a pointer with a symbolic element index (scalar elements only).
func (in *Interp) loadSym(p Ptr, t types.Type) Value {
	vals := make([]*Term, p.N)
	for i := 0; i < p.N; i++ {
		tv, ok := p.Obj.Slots[p.Off+i].(*Term)
		if !ok {
			cp := in.concPtr(p)
			return in.loadAt(cp.Obj, cp.Off, t)
		}
		vals[i] = tv
	}
	return in.tableSelect(vals, p.Sym)
}

// tableSelect builds the term vals[idx] for idx in [0,len(vals)).
func (in *Interp) tableSelect(vals []*Term, idx *Term) *Term {
	ts := in.ts
	n := len(vals)
	if n == 0 {
		panic(engineErr("tableSelect on empty table"))
	}
	w := vals[0].Sort.W
	isBool := vals[0].Sort.K == SBool
	allConst := !isBool
	for _, v := range vals {
		if !v.IsConst() {
			allConst = false
			break
		}
	}
	iw := idx.Sort.W
	if allConst {
		// composition with an inner constant-table lookup: T2[T1[x]] = T12[x]
		inner := idx
		for inner.Op == OpZext {
			inner = inner.Args[0]
		}
		if ti, ok := in.ts.Tables[inner.ID]; ok {
			comp := make([]*Term, len(ti.Vals))
			okc := true
			for i, v := range ti.Vals {
				if v >= uint64(n) {
					okc = false
					break
				}
				comp[i] = vals[v]
			}
			if okc {
				return in.tableSelect(comp, ti.Idx)
			}
		}
	}
	type run struct {
		lo, hi int // inclusive
		affine bool
		d      uint64 // val = idx + d (mod 2^w) when affine, else constant d
	}
	var runs []run
	if allConst {
		i := 0
		for i < n {
			// try constant run
			j := i
			for j+1 < n && vals[j+1].Val == vals[i].Val {
				j++
			}
			// try affine run
			k := i
			d := (vals[i].Val - uint64(i)) & mask(w)
			for k+1 < n && (vals[k+1].Val-uint64(k+1))&mask(w) == d {
				k++
			}
			if k > j {
				runs = append(runs, run{i, k, true, d})
				i = k + 1
			} else {
				runs = append(runs, run{i, j, false, vals[i].Val})
				i = j + 1
			}
		}
		// default = most frequent constant run value to shorten chain: keep simple, last run is default
		var res *Term
		idxw := ts.Resize(idx, w, false)
		mkv := func(r run) *Term {
			if r.affine {
				return ts.Add(idxw, ts.Const(w, r.d))
			}
			return ts.Const(w, r.d)
		}
		res = mkv(runs[len(runs)-1])
		for q := len(runs) - 2; q >= 0; q-- {
			r := runs[q]
			var c *Term
			if r.lo == r.hi {
				c = ts.Eq(idx, ts.Const(iw, uint64(r.lo)))
			} else {
				c = ts.And(ts.Ule(ts.Const(iw, uint64(r.lo)), idx), ts.Ule(idx, ts.Const(iw, uint64(r.hi))))
			}
			res = ts.Ite(c, mkv(r), res)
		}
		if !res.IsConst() {
			tv := make([]uint64, n)
			for i, v := range vals {
				tv[i] = v.Val
			}
			in.ts.Tables[res.ID] = TableInfo{Vals: tv, Idx: idx}
		}
		return res
	}
	res := vals[n-1]
	for i := n - 2; i >= 0; i-- {
		res = ts.Ite(ts.Eq(idx, ts.Const(iw, uint64(i))), vals[i], res)
	}
	return res
}

// concPtr resolves a symbolic element pointer by forking over the index.
func (in *Interp) concPtr(p Ptr) Ptr {
	if p.Sym == nil {
		return p
	}
	i := in.Concretize(p.Sym)
	return Ptr{Obj: p.Obj, Off: p.Off + int(i)}
}

// ---------------------------------------------------------------------------
// helpers for strings / byte slices

func (in *Interp) strConst(s string) Str {
	if v, ok := in.strCache[s]; ok {
		return v
	}
	b := make([]*Term, len(s))
	for i := 0; i < len(s); i++ {
		b[i] = in.byteConst(s[i])
	}
	v := Str{b}
	if len(s) < 256 {
		in.strCache[s] = v
	}
	return v
}

func (in *Interp) byteConst(b byte) *Term { return in.bytes[b] }

// sliceBytes returns the byte terms of a []byte slice value.
func (in *Interp) sliceBytes(s Slice) []*Term {
	out := make([]*Term, s.Len)
	for i := 0; i < s.Len; i++ {
		out[i] = s.Obj.Slots[s.Off+i].(*Term)
	}
	return out
}

// newByteSlice allocates a fresh []byte holding b.
func (in *Interp) newByteSlice(b []*Term) Slice {
	o := &Obj{Slots: make([]Value, len(b)), ID: in.nextObj}
	in.nextObj++
	for i, t := range b {
		o.Slots[i] = t
	}
	return Slice{Obj: o, Off: 0, Len: len(b), Cap: len(b)}
}

func (in *Interp) intConst(v int64) *Term { return in.ts.Const(64, uint64(v)) }

func (in *Interp) strEq(a, b Str) *Term {
	if len(a.B) != len(b.B) {
		return in.ts.False
	}
	cs := make([]*Term, 0, len(a.B))
	for i := range a.B {
		c := in.ts.Eq(a.B[i], b.B[i])
		if c.IsFalse() {
			return c
		}
		cs = append(cs, c)
	}
	return in.ts.And(cs...)
}

// strLess builds a < b lexicographically.
func (in *Interp) strLess(a, b Str) *Term {
	ts := in.ts
	n := len(a.B)
	if len(b.B) < n {
		n = len(b.B)
	}
	// result for equal common prefix
	res := ts.Bool(len(a.B) < len(b.B))
	for i := n - 1; i >= 0; i-- {
		res = ts.Ite(ts.Eq(a.B[i], b.B[i]), res, ts.Ult(a.B[i], b.B[i]))
	}
	return res
}

type engineError struct{ msg string }

func (e engineError) Error() string { return e.msg }

func engineErr(f string, a ...interface{}) engineError {
	return engineError{fmt.Sprintf(f, a...)}
}
