package sym

import (
	"fmt"
	"go/types"
)

// Cryptographic primitives as uninterpreted functions by Ackermannisation (DESIGN §3, A.6):
// equal arguments give equal results, and (collision-freeness) equal results imply equal
// arguments; calls of different shapes never collide.

// ufApply returns fresh result bytes for f(args...) and adds the UF axioms w.r.t. earlier calls.
func (in *Interp) ufApply(name string, args [][]*Term, outLen int) []*Term {
	return in.ufApplyKind(name, args, outLen, true)
}

// ufApplyKind: injective = collision-free (cryptographic digests); otherwise only functional
// consistency (equal arguments give equal results), e.g. a scoring function.
func (in *Interp) ufApplyKind(name string, args [][]*Term, outLen int, injective bool) []*Term {
	ts := in.ts
	// syntactically identical arguments: the very same result terms
	for _, prev := range in.ufCalls[name] {
		if len(prev.args) != len(args) || len(prev.res) != outLen {
			continue
		}
		same := true
		for i := range args {
			if len(args[i]) != len(prev.args[i]) {
				same = false
				break
			}
			for j := range args[i] {
				if args[i][j] != prev.args[i][j] {
					same = false
					break
				}
			}
			if !same {
				break
			}
		}
		if same {
			return prev.res
		}
	}
	res := make([]*Term, outLen)
	// model hint: a hash of the arguments' model values (equal args -> equal results, else distinct)
	hintOK := true
	h := uint64(1469598103934665603)
	mix := func(b uint64) { h ^= b; h *= 1099511628211 }
	for _, c := range name {
		mix(uint64(c))
	}
	for _, a := range args {
		mix(uint64(len(a)) + 0x100)
		for _, t := range a {
			if !t.IsConst() && !in.compsValid(t) {
				hintOK = false
			}
			if hintOK {
				mix(in.evalT(t))
			}
		}
	}
	for i := range res {
		res[i] = in.fresh(name, BV(8))
		if hintOK {
			h ^= h >> 29
			h *= 0xbf58476d1ce4e5b9
			h ^= h >> 32
			in.model[res[i].ID] = (h >> 17) & 0xff
		}
	}
	var cs []*Term
	for _, prev := range in.ufCalls[name] {
		sameShape := len(prev.args) == len(args) && len(prev.res) == outLen
		if sameShape {
			for i := range args {
				if len(args[i]) != len(prev.args[i]) {
					sameShape = false
					break
				}
			}
		}
		if len(prev.res) != outLen {
			continue // different output sizes cannot be compared bytewise
		}
		resEq := in.strEq(Str{res}, Str{prev.res})
		if !sameShape {
			if injective {
				cs = append(cs, ts.Not(resEq))
			}
			continue
		}
		var aeq []*Term
		for i := range args {
			aeq = append(aeq, in.strEq(Str{args[i]}, Str{prev.args[i]}))
		}
		argsEq := ts.And(aeq...)
		if injective {
			cs = append(cs, ts.Eq(argsEq, resEq))
		} else {
			cs = append(cs, ts.Implies(argsEq, resEq))
		}
	}
	in.ufCalls[name] = append(in.ufCalls[name], ufCall{args: args, res: res})
	if len(cs) > 0 {
		in.assume(ts.And(cs...))
	}
	return res
}

func termBytes(in *Interp, t *Term) []*Term {
	n := t.Sort.W / 8
	out := make([]*Term, n)
	for i := 0; i < n; i++ {
		out[i] = in.ts.Extract(t, 8*i+7, 8*i)
	}
	return out
}

func registerCrypto(p *Program) {
	I := p.Intr
	I["crypto/rand.Read"] = func(in *Interp, fr *frame, a []Value) Value {
		b := a[0].(Slice)
		in.env.randCalls++
		cur := make([]*Term, b.Len)
		for i := 0; i < b.Len; i++ {
			cur[i] = in.fresh(fmt.Sprintf("rand%d", in.env.randCalls), BV(8))
			in.model[cur[i].ID] = uint64((in.env.randCalls*131 + i*7 + 1) & 0xff)
			in.setSlot(b.Obj, b.Off+i, cur[i])
			in.env.randVar[cur[i].ID] = in.env.randCalls
		}
		// freshness: a CSPRNG never repeats a value of 12 bytes or more
		if b.Len >= 12 {
			var cs []*Term
			for _, prev := range in.env.randOuts {
				if len(prev) == len(cur) {
					cs = append(cs, in.ts.Not(in.strEq(Str{prev}, Str{cur})))
				}
			}
			if len(cs) > 0 {
				in.assume(in.ts.And(cs...))
			}
		}
		in.env.randOuts = append(in.env.randOuts, cur)
		return Tuple{in.intConst(int64(b.Len)), Iface{}}
	}
	I["golang.org/x/crypto/argon2.IDKey"] = func(in *Interp, fr *frame, a []Value) Value {
		ts := in.ts
		pw := in.sliceBytesOrNil(a[0].(Slice))
		salt := in.sliceBytesOrNil(a[1].(Slice))
		tm, mem, thr, kl := a[2].(*Term), a[3].(*Term), a[4].(*Term), a[5].(*Term)
		if in.Branch(ts.Ult(tm, ts.Const(32, 1))) {
			panic(goPanic{Iface{T: types.Typ[types.String], V: in.strConst("argon2: number of rounds too small")}})
		}
		if in.Branch(ts.Ult(thr, ts.Const(8, 1))) {
			panic(goPanic{Iface{T: types.Typ[types.String], V: in.strConst("argon2: parallelism degree too low")}})
		}
		n := int(in.Concretize(ts.Zext(kl, 64)))
		if n < 1 {
			panic(in.goPanicStr("runtime error: invalid memory address or nil pointer dereference (argon2 with key length 0)"))
		}
		if n > 1024 {
			panic(engineErr("argon2 key length %d beyond model", n))
		}
		res := in.ufApply("argon2id", [][]*Term{pw, salt, termBytes(in, tm), termBytes(in, mem), termBytes(in, thr), termBytes(in, kl)}, n)
		return in.newByteSlice(res)
	}
	I["golang.org/x/crypto/scrypt.Key"] = func(in *Interp, fr *frame, a []Value) Value {
		ts := in.ts
		pw := in.sliceBytesOrNil(a[0].(Slice))
		salt := in.sliceBytesOrNil(a[1].(Slice))
		N, r, pp, kl := a[2].(*Term), a[3].(*Term), a[4].(*Term), a[5].(*Term)
		bad := ts.Or(ts.Sle(N, ts.Const(64, 1)), ts.Not(ts.Eq(ts.BvAnd(N, ts.Sub(N, ts.Const(64, 1))), ts.Const(64, 0))))
		if in.Branch(bad) {
			return Tuple{Slice{}, in.newErrorf("scrypt: N must be > 1 and a power of 2")}
		}
		// uint64(r)*uint64(p) >= 1<<30 || r > maxInt/128/p || r > maxInt/256 || N > maxInt/128/r
		if in.Branch(ts.Or(ts.Eq(pp, ts.Const(64, 0)), ts.Eq(r, ts.Const(64, 0)))) {
			// first sub-condition is evaluated first: uint64(r)*uint64(p) = 0 -> continue to the division
			panic(in.goPanicStr("runtime error: integer divide by zero"))
		}
		rv := in.Concretize(r)
		pv := in.Concretize(pp)
		const maxInt = int64(^uint64(0) >> 1)
		if uint64(rv)*uint64(pv) >= 1<<30 || rv > maxInt/128/pv || rv > maxInt/256 {
			return Tuple{Slice{}, in.newErrorf("scrypt: parameters are too large")}
		}
		if in.Branch(ts.Slt(ts.Const(64, uint64(maxInt/128/rv)), N)) {
			return Tuple{Slice{}, in.newErrorf("scrypt: parameters are too large")}
		}
		n := in.concInt(kl)
		// PBKDF2-HMAC-SHA256 key normalisation: keys over 64 bytes are replaced by their SHA-256,
		// shorter ones are zero-padded to the block size.
		key := pw
		if len(key) > 64 {
			key = in.ufApply("sha256", [][]*Term{pw}, 32)
		}
		block := make([]*Term, 64)
		for i := range block {
			if i < len(key) {
				block[i] = key[i]
			} else {
				block[i] = in.byteConst(0)
			}
		}
		res := in.ufApply("scrypt", [][]*Term{block, salt, termBytes(in, N), termBytes(in, ts.Const(64, uint64(rv))), termBytes(in, ts.Const(64, uint64(pv)))}, n)
		return Tuple{in.newByteSlice(res), Iface{}}
	}
	// hmac.New(sha256.New, key) / Write / Sum: one UF over (key, message)
	I["crypto/hmac.New"] = func(in *Interp, fr *frame, a []Value) Value {
		t := in.namedType("crypto/hmac", "hmac")
		o := in.newObj(t)
		o.Tag = &hmacModel{key: in.sliceBytesOrNil(a[1].(Slice))}
		return Iface{T: types.NewPointer(t), V: Ptr{Obj: o}}
	}
	I["(*crypto/hmac.hmac).Write"] = func(in *Interp, fr *frame, a []Value) Value {
		h := a[0].(Ptr).Obj.Tag.(*hmacModel)
		d := in.sliceBytesOrNil(a[1].(Slice))
		h.msg = append(h.msg, d...)
		return Tuple{in.intConst(int64(len(d))), Iface{}}
	}
	I["(*crypto/hmac.hmac).Sum"] = func(in *Interp, fr *frame, a []Value) Value {
		h := a[0].(Ptr).Obj.Tag.(*hmacModel)
		res := in.ufApply("hmacsha256", [][]*Term{h.key, h.msg}, 32)
		pre := in.sliceBytesOrNil(a[1].(Slice))
		return in.newByteSlice(append(append([]*Term(nil), pre...), res...))
	}
	I["(*crypto/hmac.hmac).Reset"] = func(in *Interp, fr *frame, a []Value) Value {
		a[0].(Ptr).Obj.Tag.(*hmacModel).msg = nil
		return nil
	}
	I["(*crypto/hmac.hmac).Size"] = func(in *Interp, fr *frame, a []Value) Value { return in.intConst(32) }
	I["crypto/sha256.Sum256"] = func(in *Interp, fr *frame, a []Value) Value {
		res := in.ufApply("sha256", [][]*Term{in.sliceBytesOrNil(a[0].(Slice))}, 32)
		out := make(ArrayV, 32)
		for i := range out {
			out[i] = res[i]
		}
		return out
	}
	// engine-side structural oracle: b consists of all bytes of exactly one rand.Read call,
	// in order, and that call's output has not been claimed before.
	I["vp:vpFreshBytes"] = func(in *Interp, fr *frame, a []Value) Value {
		b := in.sliceBytesOrNil(a[0].(Slice))
		if len(b) == 0 {
			return in.ts.False
		}
		call, ok := in.env.randVar[b[0].ID]
		if !ok {
			return in.ts.False
		}
		out := in.env.randOuts[call-1]
		if len(out) != len(b) {
			return in.ts.False
		}
		for i := range b {
			if b[i] != out[i] {
				return in.ts.False
			}
		}
		if in.env.randClaimed[call] {
			return in.ts.False
		}
		in.env.randClaimed[call] = true
		return in.ts.True
	}
	// vpSecretFree(b, secret): no byte of b depends on the secret's variables other than through a UF
	I["vp:vpNoteSecret"] = func(in *Interp, fr *frame, a []Value) Value {
		var bs []*Term
		switch x := a[0].(type) {
		case Str:
			bs = x.B
		case Slice:
			bs = in.sliceBytesOrNil(x)
		}
		for _, t := range bs {
			if t.Op == OpVar {
				in.env.secretVars[t.ID] = true
			}
		}
		return nil
	}
	I["vp:vpSecretFree"] = func(in *Interp, fr *frame, a []Value) Value {
		var bs []*Term
		switch x := a[0].(type) {
		case Str:
			bs = x.B
		case Slice:
			bs = in.sliceBytesOrNil(x)
		}
		seen := map[int]bool{}
		for _, t := range bs {
			if in.dependsOnSecret(t, seen) {
				return in.ts.False
			}
		}
		return in.ts.True
	}
}

type hmacModel struct {
	key []*Term
	msg []*Term
}

func (in *Interp) dependsOnSecret(t *Term, seen map[int]bool) bool {
	st := []*Term{t}
	for len(st) > 0 {
		x := st[len(st)-1]
		st = st[:len(st)-1]
		if x.Op == OpConst || seen[x.ID] {
			continue
		}
		seen[x.ID] = true
		if x.Op == OpVar {
			if in.env.secretVars[x.ID] {
				return true
			}
			continue
		}
		st = append(st, x.Args...)
	}
	return false
}

// ---------------------------------------------------------------------------
// time

func registerTimeRand(p *Program) {
	registerCrypto(p)
	I := p.Intr
	I["time.runtimeNano"] = func(in *Interp, fr *frame, a []Value) Value { return in.intConst(1) }
	I["time.Now"] = func(in *Interp, fr *frame, a []Value) Value {
		sec := in.env.clockNow()
		v := in.timeFromUnix(sec).(StructV)
		v[0] = in.env.nowNs // wall without the monotonic flag: just the nanoseconds (< 2^30)
		return v
	}
	I["time.Since"] = func(in *Interp, fr *frame, a []Value) Value {
		now := in.env.clockNow()
		return in.durationBetween(now, in.env.nowNs, in.unixOfTime(a[0]), in.nsOfTime(a[0]))
	}
	I["(time.Time).Sub"] = func(in *Interp, fr *frame, a []Value) Value {
		return in.durationBetween(in.unixOfTime(a[0]), in.nsOfTime(a[0]), in.unixOfTime(a[1]), in.nsOfTime(a[1]))
	}
	I["time.Time.Sub"] = I["(time.Time).Sub"]
	// Time.Add of a constant whole number of seconds on a modelled clock reading (deadlines):
	// seconds move, the sub-second part stays
	I["(time.Time).Add"] = func(in *Interp, fr *frame, a []Value) Value {
		d, ok := a[1].(*Term)
		if !ok || !d.IsConst() || int64(d.Val)%1000000000 != 0 {
			panic(engineErr("Time.Add of a duration that is not a constant number of whole seconds"))
		}
		t := a[0].(StructV)
		wall := t[0].(*Term)
		if wall.IsConst() && wall.Val>>63 != 0 {
			panic(engineErr("time value with monotonic reading in Add"))
		}
		out := append(StructV(nil), t...)
		out[1] = in.ts.Add(t[1].(*Term), in.ts.Const(64, uint64(int64(d.Val)/1000000000)))
		return out
	}
	I["time.Time.Add"] = I["(time.Time).Add"]
	I["time.Sleep"] = func(in *Interp, fr *frame, a []Value) Value {
		// advances the clock by at least the duration (seconds granularity)
		d := a[0].(*Term)
		ts := in.ts
		secs := ts.SDiv(d, ts.Const(64, 1000000000))
		if secs.IsConst() {
			in.env.advance(secs)
		}
		in.sched.maybeYield()
		return nil
	}
	I["vp:vpSleep"] = func(in *Interp, fr *frame, a []Value) Value {
		in.env.advance(a[0].(*Term))
		return nil
	}
	I["vp:vpClockGap"] = func(in *Interp, fr *frame, a []Value) Value {
		// lets an arbitrary non-negative number of seconds (<= max) pass; returns it
		ts := in.ts
		g := in.fresh("gap", BV(64))
		in.nondet = append(in.nondet, NondetVar{"gap", "int", []*Term{g}})
		in.assume(ts.And(ts.Sle(ts.Const(64, 0), g), ts.Sle(g, a[0].(*Term))))
		in.env.advance(g)
		return g
	}
	I["(time.Time).String"] = func(in *Interp, fr *frame, a []Value) Value { return in.strConst("<time>") }
	I["(time.Time).Format"] = func(in *Interp, fr *frame, a []Value) Value { return in.strConst("<time>") }
}

// clockNow returns the current unix time in seconds: symbolic, non-decreasing, 10 decimal digits.
func (e *envState) clockNow() *Term {
	in := e.in
	ts := in.ts
	if e.now == nil {
		// unix time = 1700000000 + x, x in [0,3000]: ten decimal digits, the low four symbolic
		x := in.fresh("clock", BV(64))
		in.model[x.ID] = 0
		delete(in.ts.Ranges, x.ID)
		in.nondet = append(in.nondet, NondetVar{"clock", "clock", []*Term{x}})
		in.assume(ts.Ule(x, ts.Const(64, 3000)))
		in.ts.Ranges[x.ID] = [2]uint64{0, 3000}
		e.now = ts.Add(x, ts.Const(64, 1700000000))
		e.nowNs = e.freshNs()
		e.noteClock()
		return e.now
	}
	// consecutive readings may be up to 1 s apart
	d := in.fresh("tick", BV(64))
	in.model[d.ID] = 0
	e.ticks = append(e.ticks, d)
	delete(in.ts.Ranges, d.ID)
	in.assume(ts.Ule(d, ts.Const(64, 1)))
	in.ts.Ranges[d.ID] = [2]uint64{0, 1}
	e.now = ts.Add(e.now, d)
	// nanoseconds within the second: arbitrary, but time does not run backwards within one second
	ns := e.freshNs()
	in.assume(ts.Implies(ts.Eq(d, ts.Const(64, 0)), ts.Ule(e.nowNs, ns)))
	e.nowNs = ns
	e.noteClock()
	return e.now
}

func (e *envState) noteClock() {
	if e.clockSecs == nil {
		e.clockSecs = map[int]bool{}
	}
	e.clockSecs[e.now.ID] = true
}

// freshNs: the sub-second part of a clock reading, 0..999999999 (a 30-bit variable, zero-extended).
func (e *envState) freshNs() *Term {
	in := e.in
	ts := in.ts
	v := in.fresh("clockns", BV(30))
	in.model[v.ID] = 0
	in.nondet = append(in.nondet, NondetVar{"clockns", "clock", []*Term{v}})
	in.assume(ts.Ule(v, ts.Const(30, 999999999)))
	t := ts.Zext(v, 64)
	if e.nsTerms == nil {
		e.nsTerms = map[int]bool{}
	}
	e.nsTerms[t.ID] = true
	return t
}

func (e *envState) advance(secs *Term) {
	if e.now == nil {
		e.clockNow()
	}
	e.now = e.in.ts.Add(e.now, secs)
	if secs.IsConst() && secs.Val < 1<<32 {
		e.noteClock()
	}
}

// nsOfTime: the nanosecond part of a time value without monotonic reading.
func (in *Interp) nsOfTime(v Value) *Term {
	wall := v.(StructV)[0].(*Term)
	if wall.IsConst() {
		if wall.Val>>63 != 0 {
			panic(engineErr("time value with monotonic reading in Sub/Since"))
		}
		return in.ts.Const(64, wall.Val&(1<<30-1))
	}
	if in.env.nsTerms[wall.ID] {
		return wall
	}
	panic(engineErr("time value with an unmodelled wall field"))
}

const unixToInternal = (1969*365 + 1969/4 - 1969/100 + 1969/400) * 86400

func (in *Interp) timeFromUnix(sec *Term) Value {
	tt := in.namedType("time", "Time")
	v := in.zero(tt).(StructV)
	// Time{wall uint64, ext int64, loc *Location}: wall without hasMonotonic, ext = seconds since year 1
	v[0] = in.ts.Const(64, 0)
	v[1] = in.ts.Add(sec, in.ts.Const(64, uint64(unixToInternal)))
	if g := in.P.Pkgs["time"].Var("Local"); g != nil {
		v[2] = in.load(Ptr{Obj: in.global(g)}, g.Type().(*types.Pointer).Elem())
	}
	return v
}

func (in *Interp) unixOfTime(v Value) *Term {
	t := v.(StructV)
	wall := t[0].(*Term)
	if wall.IsConst() && wall.Val>>63 != 0 || !wall.IsConst() && !in.env.nsTerms[wall.ID] {
		panic(engineErr("time value with monotonic reading in Sub/Since"))
	}
	return in.ts.Sub(t[1].(*Term), in.ts.Const(64, uint64(unixToInternal)))
}

// durationBetween returns (a-b) as a time.Duration (saturating like Go) for instants given as
// seconds and nanoseconds. The product with 1e9 is never handed to the solver: comparisons of the
// result go through its (seconds, nanoseconds) decomposition (cmpScaled).
func (in *Interp) durationBetween(as, an, bs, bn *Term) Value {
	ts := in.ts
	diff := ts.Sub(as, bs)
	const lim = 9223372035                                     // |diff| beyond this saturates
	if !(in.env.clockSecs[as.ID] && in.env.clockSecs[bs.ID]) { // two clock readings are never that far apart
		if in.Branch(ts.Slt(ts.Const(64, lim), diff)) {
			return ts.Const(64, uint64(1<<63-1))
		}
		if in.Branch(ts.Slt(diff, ts.Neg(ts.Const(64, lim)))) {
			return ts.Const(64, 1<<63)
		}
	}
	var nn *Term = ts.Const(64, 0)
	if !(an.IsConst() && bn.IsConst() && an.Val == bn.Val) {
		// normalise to 0 <= nn < 1e9 by borrowing a second
		borrow := ts.Ult(an, bn)
		dn := ts.Sub(an, bn)
		nn = ts.Ite(borrow, ts.Add(dn, ts.Const(64, 1000000000)), dn)
		diff = ts.Ite(borrow, ts.Sub(diff, ts.Const(64, 1)), diff)
	}
	d := ts.Add(ts.Mul(diff, ts.Const(64, 1000000000)), nn)
	in.secScaled[d.ID] = diff
	in.nsScaled[d.ID] = nn
	return d
}
