package sym

import (
	"encoding/json"
	"fmt"
	"os"
	"path/filepath"
	"sort"
	"strings"
	"sync"
	"time"

	"golang.org/x/tools/go/packages"
	"golang.org/x/tools/go/ssa"
	"golang.org/x/tools/go/ssa/ssautil"
)

// LoadConfig describes what to load.
type LoadConfig struct {
	RepoDir  string
	RepoMod  string
	Patterns []string          // package patterns relative to RepoDir
	Overlay  map[string][]byte // absolute file name -> content
	InitPkgs []string
}

func Load(cfg LoadConfig) (*Program, error) {
	pc := &packages.Config{
		Mode:    packages.LoadAllSyntax,
		Dir:     cfg.RepoDir,
		Overlay: cfg.Overlay,
		Env:     append(os.Environ(), "GOFLAGS=-mod=mod", "GOPROXY=off", "GOSUMDB=off", "GOTOOLCHAIN=local", "CGO_ENABLED=0"),
	}
	initial, err := packages.Load(pc, cfg.Patterns...)
	if err != nil {
		return nil, err
	}
	var errs []string
	packages.Visit(initial, nil, func(p *packages.Package) {
		for _, e := range p.Errors {
			errs = append(errs, e.Error())
		}
	})
	if len(errs) > 0 {
		return nil, fmt.Errorf("package load errors:\n%s", strings.Join(errs, "\n"))
	}
	prog, _ := ssautil.AllPackages(initial, ssa.InstantiateGenerics)
	prog.Build()
	p := &Program{Prog: prog, Pkgs: map[string]*ssa.Package{}, RepoMod: cfg.RepoMod, Intr: map[string]Intrinsic{}, Covered: map[string]int{}}
	for _, sp := range prog.AllPackages() {
		p.Pkgs[sp.Pkg.Path()] = sp
	}
	p.InitPkgs = cfg.InitPkgs
	RegisterCore(p)
	RegisterEnv(p)
	return p, nil
}

// ---------------------------------------------------------------------------

// ---------------------------------------------------------------------------
// Unit runner

type UnitResult struct {
	Unit        string
	Paths       int
	Done        int
	Pruned      int
	Panicked    int
	Ends        map[string]int
	Asserts     int
	Folded      int
	Violations  []Violation
	Covers      map[string][]NondetValue
	Incomplete  []string
	EngineErrs  []string
	Steps       int64
	Decisions   int64
	Queries     int
	QSat        int
	QUnsat      int
	QUnknown    int
	SolverTime  time.Duration
	Wall        time.Duration
	MaxPathsHit bool
	PanicMsgs   map[string]int
	WedgeMsgs   map[string]int
}

type RunOptions struct {
	Workers      int
	MaxPaths     int
	MaxSteps     int
	MaxDecisions int
	QueryTimeout int // ms
	SolverBin    string
	Debug        bool
	TraceCalls   bool
	Deadline     time.Time
}

type workItem struct {
	prefix []Decision
}

// RunUnit explores all paths of fn.
func RunUnit(p *Program, unit string, fn *ssa.Function, opt RunOptions) *UnitResult {
	t0 := time.Now()
	ur := &UnitResult{Unit: unit, Ends: map[string]int{}, Covers: map[string][]NondetValue{}, PanicMsgs: map[string]int{}, WedgeMsgs: map[string]int{}}
	var mu sync.Mutex
	cond := sync.NewCond(&mu)
	stack := []workItem{{nil}}
	active := 0
	stop := false
	vioSeen := map[string]int{}

	worker := func(wid int) {
		var in *Interp
		var sol *Solver
		npaths := 0
		newInterp := func() bool {
			if sol != nil {
				mu.Lock()
				ur.Queries += sol.Queries
				ur.QSat += sol.NSat
				ur.QUnsat += sol.NUnsat
				ur.QUnknown += sol.NUnknown + sol.NErrors
				ur.SolverTime += sol.Time
				mu.Unlock()
				sol.Close()
			}
			var err error
			sol, err = NewSolver(opt.SolverBin, opt.QueryTimeout)
			if err != nil {
				mu.Lock()
				ur.EngineErrs = append(ur.EngineErrs, "solver start: "+err.Error())
				mu.Unlock()
				return false
			}
			in = NewInterp(p, sol, &UnitConfig{MaxSteps: opt.MaxSteps, MaxDecisions: opt.MaxDecisions, QueryTimeout: opt.QueryTimeout, Debug: opt.Debug, TraceCalls: opt.TraceCalls})
			if err := in.RunInits(); err != nil {
				mu.Lock()
				ur.EngineErrs = append(ur.EngineErrs, err.Error())
				mu.Unlock()
				return false
			}
			if opt.Debug && wid == 0 {
				for _, m := range in.InitProblems {
					fmt.Fprintf(os.Stderr, "init problem: %s\n", m)
				}
			}
			return true
		}
		if !newInterp() {
			mu.Lock()
			stop = true
			cond.Broadcast()
			mu.Unlock()
			return
		}
		defer func() {
			mu.Lock()
			ur.Queries += sol.Queries
			ur.QSat += sol.NSat
			ur.QUnsat += sol.NUnsat
			ur.QUnknown += sol.NUnknown + sol.NErrors
			ur.SolverTime += sol.Time
			mu.Unlock()
			sol.Close()
		}()
		for {
			mu.Lock()
			for len(stack) == 0 && active > 0 && !stop {
				cond.Wait()
			}
			if stop || (len(stack) == 0 && active == 0) {
				cond.Broadcast()
				mu.Unlock()
				return
			}
			it := stack[len(stack)-1]
			stack = stack[:len(stack)-1]
			active++
			mu.Unlock()

			res := in.RunPath(unit, fn, it.prefix)
			npaths++

			mu.Lock()
			active--
			ur.Paths++
			ur.Ends[res.End]++
			ur.Steps += int64(res.Steps)
			ur.Decisions += int64(res.Decs)
			ur.Asserts += res.Asserts
			ur.Folded += res.Folded
			switch res.End {
			case "done":
				ur.Done++
			case "assume", "infeasible":
				ur.Pruned++
			case "panic":
				ur.Panicked++
				if len(ur.PanicMsgs) < 20 {
					ur.PanicMsgs[res.Msg]++
				}
			case "wedge":
				if len(ur.WedgeMsgs) < 20 {
					ur.WedgeMsgs[res.Msg]++
				}
			case "engine", "budget":
				if len(ur.EngineErrs) < 20 {
					ur.EngineErrs = append(ur.EngineErrs, res.End+": "+res.Msg+" "+fmtDecs(it.prefix))
				}
			}
			for _, v := range res.Violations {
				key := v.AssertID
				if vioSeen[key] < 3 {
					vioSeen[key]++
					ur.Violations = append(ur.Violations, v)
				}
			}
			for k, v := range res.Covers {
				if _, ok := ur.Covers[k]; !ok {
					ur.Covers[k] = v
				}
			}
			for _, m := range res.Incomplete {
				if len(ur.Incomplete) < 20 {
					ur.Incomplete = append(ur.Incomplete, m)
				}
			}
			for _, c := range res.Children {
				stack = append(stack, workItem{c})
			}
			if ur.Paths+len(stack) > opt.MaxPaths && opt.MaxPaths > 0 && ur.Paths >= opt.MaxPaths {
				ur.MaxPathsHit = true
				stop = true
			}
			if !opt.Deadline.IsZero() && time.Now().After(opt.Deadline) {
				ur.MaxPathsHit = true
				ur.Incomplete = append(ur.Incomplete, "deadline reached")
				stop = true
			}
			cond.Broadcast()
			mu.Unlock()
			if npaths%1500 == 0 || in.ts.next > 3000000 {
				if !newInterp() {
					mu.Lock()
					stop = true
					cond.Broadcast()
					mu.Unlock()
					return
				}
			}
		}
	}
	if opt.Debug || os.Getenv("GOSYM_PROGRESS") != "" {
		go func() {
			for {
				time.Sleep(10 * time.Second)
				mu.Lock()
				if stop || (len(stack) == 0 && active == 0) {
					mu.Unlock()
					return
				}
				fmt.Fprintf(os.Stderr, "progress %s: paths=%d queue=%d active=%d ends=%v\n", unit, ur.Paths, len(stack), active, ur.Ends)
				mu.Unlock()
			}
		}()
	}
	var wg sync.WaitGroup
	for i := 0; i < opt.Workers; i++ {
		wg.Add(1)
		go func(i int) {
			defer wg.Done()
			worker(i)
		}(i)
	}
	wg.Wait()
	ur.Wall = time.Since(t0)
	return ur
}

func fmtDecs(d []Decision) string {
	var sb strings.Builder
	sb.WriteString("[")
	for i, x := range d {
		if i > 60 {
			sb.WriteString("...")
			break
		}
		fmt.Fprintf(&sb, "%c%d ", x.K, x.V)
	}
	sb.WriteString("]")
	return sb.String()
}

// Units returns the harness functions named VP_<prop>_* in the loaded repo packages.
func Units(p *Program, prop string) map[string]*ssa.Function {
	out := map[string]*ssa.Function{}
	for path, pkg := range p.Pkgs {
		if !strings.HasPrefix(path, p.RepoMod) {
			continue
		}
		for name, m := range pkg.Members {
			if fn, ok := m.(*ssa.Function); ok && strings.HasPrefix(name, "VP_"+prop+"_") {
				out[name] = fn
			}
		}
	}
	return out
}

func SortedKeys[T any](m map[string]T) []string {
	ks := make([]string, 0, len(m))
	for k := range m {
		ks = append(ks, k)
	}
	sort.Strings(ks)
	return ks
}

func WriteJSON(path string, v interface{}) error {
	os.MkdirAll(filepath.Dir(path), 0755)
	b, err := json.MarshalIndent(v, "", " ")
	if err != nil {
		return err
	}
	return os.WriteFile(path, b, 0644)
}
