package sym

import (
	"fmt"
	"sort"
	"strings"
)

// Crash / power-loss analysis of a recorded file-system event trace (DESIGN App. B.3).
// The crash instant k, the persistence bit of every directory-entry effect and the persisted
// prefix of every written chunk are solver variables; the post-crash binding of a name is an
// ite-term over them. Obligations are discharged through doAssert like any other assertion.

type dirEffect struct {
	pair *dirEffect // first half of the same rename (shares its persistence bit: rename is atomic)
	idx  int        // event index
	dir  int
	name string
	val  int // inode id, 0 = absent
	p    *Term
	pv   *Term
	// first half of a rename into another directory: under the standard model the entry under the
	// final name is durable only after an fsync of the directory it moved *into*; an fsync of the
	// directory it left does not force the (atomic) rename
	crossSrc bool
}

type chunk struct {
	idx int
	ino int
	n   int
	q   *Term
}

type crashModel struct {
	in      *Interp
	m       int
	k       *Term
	effects []*dirEffect
	chunks  []*chunk
	fsyncs  map[int][]int // inode -> event indices of fsync
	cons    []*Term       // constraints of the persistence model
	power   bool
}

func nameKey(s Str) string {
	if c, ok := s.Concrete(); ok {
		return c
	}
	return "?" + provKey(s.B)
}

func (in *Interp) newCrashModel(trace []fsEvent, power bool, tag string) *crashModel {
	ts := in.ts
	cm := &crashModel{in: in, m: len(trace), power: power, fsyncs: map[int][]int{}}
	cm.k = in.fresh(tag+"_crash_before_event", BV(16))
	in.nondet = append(in.nondet, NondetVar{tag + "_crash_before_event", "crash", []*Term{cm.k}})
	cm.cons = append(cm.cons, ts.Ule(cm.k, ts.Const(16, uint64(cm.m))))
	for i, ev := range trace {
		if ev.Err != "" {
			continue
		}
		switch ev.Op {
		case "fsync":
			cm.fsyncs[ev.Ino] = append(cm.fsyncs[ev.Ino], i)
		case "create", "mkdir", "symlink", "link":
			cm.effects = append(cm.effects, &dirEffect{idx: i, dir: ev.Dir, name: nameKey(ev.Name), val: ev.Ino})
		case "unlink":
			cm.effects = append(cm.effects, &dirEffect{idx: i, dir: ev.Dir, name: nameKey(ev.Name), val: 0})
		case "rename":
			src := &dirEffect{idx: i, dir: ev.Dir, name: nameKey(ev.Name), val: 0, crossSrc: ev.Dir != ev.Dir2}
			cm.effects = append(cm.effects, src)
			cm.effects = append(cm.effects, &dirEffect{idx: i, dir: ev.Dir2, name: nameKey(ev.Name2), val: ev.Ino, pair: src})
		case "write":
			if ev.N > 0 {
				cm.chunks = append(cm.chunks, &chunk{idx: i, ino: ev.Ino, n: ev.N})
			}
		}
	}
	kc := func(i int) *Term { return ts.Const(16, uint64(i)) }
	for j, e := range cm.effects {
		before := ts.Ult(kc(e.idx), cm.k) // event e.idx executed before the crash
		if !power {
			e.p = before
			continue
		}
		if e.pair != nil {
			e.p = e.pair.p
			e.pv = e.pair.pv
			for _, f := range cm.fsyncs[e.dir] {
				if f > e.idx {
					cm.cons = append(cm.cons, ts.Implies(ts.Ult(kc(f), cm.k), e.pv))
				}
			}
			continue
		}
		pv := in.fresh(fmt.Sprintf("%s_persist_dirop%d_ev%d", tag, j, e.idx), BoolSort)
		in.nondet = append(in.nondet, NondetVar{fmt.Sprintf("%s_persisted_%s_ev%d", tag, e.name, e.idx), "crash", []*Term{pv}})
		e.p = ts.And(before, pv)
		e.pv = pv
		// a later fsync of the directory (executed before the crash) forces persistence
		for _, f := range cm.fsyncs[e.dir] {
			if f > e.idx && !e.crossSrc {
				cm.cons = append(cm.cons, ts.Implies(ts.Ult(kc(f), cm.k), pv))
			}
		}
	}
	var prev *chunk
	for j, c := range cm.chunks {
		full := ts.Const(32, uint64(c.n))
		before := ts.Ult(kc(c.idx), cm.k)
		if !power {
			c.q = ts.Ite(before, full, ts.Const(32, 0))
			prev = c
			continue
		}
		qv := in.fresh(fmt.Sprintf("%s_persisted_bytes_chunk%d_ev%d", tag, j, c.idx), BV(32))
		in.nondet = append(in.nondet, NondetVar{fmt.Sprintf("%s_persisted_bytes_of_write_ev%d", tag, c.idx), "crash", []*Term{qv}})
		c.q = qv
		cm.cons = append(cm.cons, ts.Ule(qv, full), ts.Implies(ts.Not(before), ts.Eq(qv, ts.Const(32, 0))))
		for _, f := range cm.fsyncs[c.ino] {
			if f > c.idx {
				cm.cons = append(cm.cons, ts.Implies(ts.Ult(kc(f), cm.k), ts.Eq(qv, full)))
			}
		}
		if prev != nil && prev.ino == c.ino {
			// data reaches the disk as a prefix of what was written
			cm.cons = append(cm.cons, ts.Implies(ts.Not(ts.Eq(qv, ts.Const(32, 0))), ts.Eq(prev.q, ts.Const(32, uint64(prev.n)))))
		}
		prev = c
	}
	return cm
}

// binding returns the post-crash inode bound to (dir,name) given its initial binding.
func (cm *crashModel) binding(dir int, name string, init int) *Term {
	ts := cm.in.ts
	b := ts.Const(16, uint64(init))
	for _, e := range cm.effects {
		if e.dir == dir && e.name == name {
			b = ts.Ite(e.p, ts.Const(16, uint64(e.val)), b)
		}
	}
	return b
}

// finalBinding is the binding when every effect is applied (the state the operation returned with).
func (cm *crashModel) finalBinding(dir int, name string, init int) int {
	b := init
	for _, e := range cm.effects {
		if e.dir == dir && e.name == name {
			b = e.val
		}
	}
	return b
}

func (cm *crashModel) complete(ino int) *Term {
	ts := cm.in.ts
	var cs []*Term
	for _, c := range cm.chunks {
		if c.ino == ino {
			cs = append(cs, ts.Eq(c.q, ts.Const(32, uint64(c.n))))
		}
	}
	return ts.And(cs...)
}

func (cm *crashModel) hasChunks(ino int) bool {
	for _, c := range cm.chunks {
		if c.ino == ino {
			return true
		}
	}
	return false
}

func registerPersist(p *Program) {
	// vpCrashCheck(base, user, op): op in add|update|init|setadmin|remove; uses the trace recorded
	// since vpTraceBegin and the directory snapshot taken there.
	p.Intr["vp:vpCrashCheck"] = func(in *Interp, fr *frame, a []Value) Value {
		fs := in.env.FS()
		base := a[0].(Str)
		user, _ := a[1].(Str).Concrete()
		op, _ := a[2].(Str).Concrete()
		durable := false
		if strings.HasSuffix(op, "+durable") {
			durable = true
			op = strings.TrimSuffix(op, "+durable")
		}
		was := fs.tracing
		fs.tracing = false
		defer func() { fs.tracing = was }()
		r := fs.resolve(base, true)
		if r.ino == nil || fs.traceBase == nil {
			panic(engineErr("vpCrashCheck: base not found or no vpTraceBegin snapshot"))
		}
		baseID := r.ino.id
		trace := fs.trace
		init := map[string]int{}
		var initBase *inode
		var findInit func(n *inode)
		findInit = func(n *inode) {
			if n.id == baseID {
				initBase = n
			}
			for _, e := range n.entries {
				findInit(e.ino)
			}
		}
		findInit(fs.traceBase)
		tmpID := -1
		preexisting := map[int]string{}
		if initBase != nil {
			for _, e := range initBase.entries {
				init[nameKey(e.name)] = e.ino.id
				preexisting[e.ino.id] = nameKey(e.name)
				if nameKey(e.name) == ".tmp" {
					tmpID = e.ino.id
				}
			}
		}
		for _, ev := range trace {
			if ev.Op == "mkdir" && ev.Err == "" && ev.Dir == baseID && nameKey(ev.Name) == ".tmp" {
				tmpID = ev.Ino
			}
		}
		in.crashAnalyse(trace, baseID, init, tmpID, preexisting, user, op, durable)
		return nil
	}
}

// crashAnalyse discharges the crash / durability obligations for one operation's event trace.
// Used on the engine's vfs trace and, for native confirmation, on a parsed strace log.
func (in *Interp) crashAnalyse(trace []fsEvent, baseID int, init map[string]int, tmpID int, preexisting map[int]string, user, op string, durable bool) {
	ts := in.ts
	targets := []string{user + ".user", user + ".admin"}
	isTarget := func(n string) bool { return n == targets[0] || n == targets[1] }
	// structural obligations (no solver variables): in-place modification and bystanders
	inPlace := ts.True
	bystander := ts.True
	for _, ev := range trace {
		if ev.Err != "" {
			continue
		}
		switch ev.Op {
		case "write", "truncate":
			if n, ok := preexisting[ev.Ino]; ok && n != ".tmp" && (ev.Op == "truncate" || ev.N > 0) {
				inPlace = ts.False
			}
		case "create", "mkdir", "unlink", "symlink", "link":
			if ev.Dir == baseID && !isTarget(nameKey(ev.Name)) && nameKey(ev.Name) != ".tmp" {
				bystander = ts.False
			}
			if ev.Dir != baseID && ev.Dir != tmpID {
				bystander = ts.False
			}
		case "rename":
			for _, dn := range [][2]interface{}{{ev.Dir, nameKey(ev.Name)}, {ev.Dir2, nameKey(ev.Name2)}} {
				d, n := dn[0].(int), dn[1].(string)
				if d == baseID && !isTarget(n) && n != ".tmp" {
					bystander = ts.False
				}
				if d != baseID && d != tmpID {
					bystander = ts.False
				}
			}
		}
	}
	in.doAssert("crash: hash files are never modified in place", inPlace, "")
	in.doAssert("crash: only the target's names and the work area are touched", bystander, "")
	for _, power := range []bool{false, true} {
		tag := "kill"
		if power {
			tag = "powerloss"
		}
		cm := in.newCrashModel(trace, power, tag)
		pre := ts.And(cm.cons...)
		var oks []*Term
		for _, t := range targets {
			b0 := init[t]
			fin := cm.finalBinding(baseID, t, b0)
			b := cm.binding(baseID, t, b0)
			// allowed: unchanged; or a complete new inode that is either the final one or (add/init) the empty reservation
			alts := []*Term{ts.Eq(b, ts.Const(16, uint64(b0)))}
			cands := map[int]bool{}
			for _, e := range cm.effects {
				if e.dir == baseID && e.name == t && e.val != b0 {
					cands[e.val] = true
				}
			}
			ids := make([]int, 0, len(cands))
			for id := range cands {
				ids = append(ids, id)
			}
			sort.Ints(ids)
			for _, id := range ids {
				is := ts.Eq(b, ts.Const(16, uint64(id)))
				switch {
				case id == 0:
					// the name disappears: legitimate only for remove / the old name of set-admin
					if op == "remove" || op == "setadmin" {
						alts = append(alts, is)
					}
				case id == fin:
					alts = append(alts, ts.And(is, cm.complete(id)))
				case !cm.hasChunks(id) && (op == "add" || op == "init"):
					alts = append(alts, is) // empty reservation
				}
			}
			oks = append(oks, ts.Or(alts...))
		}
		in.doAssert("crash("+tag+"): target is absent/reserved, old-complete or new-complete at every crash point", ts.Implies(pre, ts.And(oks...)), "")
		if power && durable {
			// C09: after the operation returned (k = m) the acknowledged effect is durable
			after := ts.Eq(cm.k, ts.Const(16, uint64(cm.m)))
			var dur []*Term
			for _, t := range targets {
				b0 := init[t]
				fin := cm.finalBinding(baseID, t, b0)
				b := cm.binding(baseID, t, b0)
				d := ts.Eq(b, ts.Const(16, uint64(fin)))
				if fin != 0 {
					d = ts.And(d, cm.complete(fin))
				}
				dur = append(dur, d)
			}
			in.doAssert("durable: acknowledged "+op+" survives power loss", ts.Implies(ts.And(pre, after), ts.And(dur...)), "")
		}
	}
}
