package sym

import (
	"fmt"
	"go/types"
	"reflect"
	"strings"

	"golang.org/x/tools/go/ssa"
)

// Models for the agent package: ideal AEAD, JSON / YAML documents, HTTP helpers (DESIGN §3).

type aeadRecord struct {
	nonce, pt, ct []*Term
}

type aeadModel struct {
	key  []*Term
	recs []*aeadRecord
}

func structTag(tag, key string) (name string, opts string) {
	v := reflect.StructTag(tag).Get(key)
	if i := strings.IndexByte(v, ','); i >= 0 {
		return v[:i], v[i+1:]
	}
	return v, ""
}

// docValue describes a document node built by the harness: map (ordered), list, scalar.
// Harness side: map[string]interface{} / []interface{} / string / int / uint / bool / nil.

// appendInto is crypto/cipher's sliceForAppend: the result extends dst in place when its capacity
// suffices (callers that pass buf[:0] get their own buffer back), else it is a fresh array.
func (in *Interp) appendInto(dst Slice, dstBytes []*Term, extra []*Term) Slice {
	if dst.Obj != nil && dst.Cap-dst.Len >= len(extra) {
		for i, t := range extra {
			in.setSlot(dst.Obj, dst.Off+dst.Len+i, t)
		}
		return Slice{Obj: dst.Obj, Off: dst.Off, Len: dst.Len + len(extra), Cap: dst.Cap}
	}
	return in.newByteSlice(append(append([]*Term(nil), dstBytes...), extra...))
}

func registerWeb(p *Program) {
	I := p.Intr
	// ---- AES-GCM as an ideal AEAD ----
	I["crypto/aes.NewCipher"] = func(in *Interp, fr *frame, a []Value) Value {
		key := in.sliceBytesOrNil(a[0].(Slice))
		if len(key) != 16 && len(key) != 24 && len(key) != 32 {
			return Tuple{Iface{}, in.newErrorf("crypto/aes: invalid key size %d", len(key))}
		}
		t := in.namedType("crypto/aes", "aesCipher")
		o := in.newObj(t)
		o.Tag = append([]*Term(nil), key...)
		return Tuple{Iface{T: types.NewPointer(t), V: Ptr{Obj: o}}, Iface{}}
	}
	I["(*crypto/aes.aesCipher).BlockSize"] = func(in *Interp, fr *frame, a []Value) Value { return in.intConst(16) }
	I["crypto/cipher.NewGCM"] = func(in *Interp, fr *frame, a []Value) Value {
		b := a[0].(Iface)
		key, ok := b.V.(Ptr).Obj.Tag.([]*Term)
		if !ok {
			panic(engineErr("NewGCM on unmodelled block cipher"))
		}
		t := in.namedType("crypto/cipher", "gcm")
		o := in.newObj(t)
		am := &aeadModel{key: key}
		o.Tag = am
		in.env.aeads = append(in.env.aeads, am)
		return Tuple{Iface{T: types.NewPointer(t), V: Ptr{Obj: o}}, Iface{}}
	}
	I["(*crypto/cipher.gcm).NonceSize"] = func(in *Interp, fr *frame, a []Value) Value { return in.intConst(12) }
	I["(*crypto/cipher.gcm).Overhead"] = func(in *Interp, fr *frame, a []Value) Value { return in.intConst(16) }
	I["(*crypto/cipher.gcm).Seal"] = func(in *Interp, fr *frame, a []Value) Value {
		m := a[0].(Ptr).Obj.Tag.(*aeadModel)
		dst := in.sliceBytesOrNil(a[1].(Slice))
		nonce := in.sliceBytesOrNil(a[2].(Slice))
		pt := in.sliceBytesOrNil(a[3].(Slice))
		if len(nonce) != 12 {
			panic(goPanic{Iface{T: types.Typ[types.String], V: in.strConst("crypto/cipher: incorrect nonce length given to GCM")}})
		}
		// deterministic: same (nonce, plaintext) under this key gives the same ciphertext
		var ct []*Term
		for _, r := range m.recs {
			if len(r.pt) == len(pt) && in.strEq(Str{r.nonce}, Str{nonce}).IsTrue() && in.strEq(Str{r.pt}, Str{pt}).IsTrue() {
				ct = r.ct
			}
		}
		if ct == nil {
			ct = make([]*Term, len(pt)+16)
			for i := range ct {
				ct[i] = in.fresh("aead", BV(8))
				in.model[ct[i].ID] = uint64((len(m.recs)*37 + i*11 + 5) & 0xff)
			}
			ts := in.ts
			var cs []*Term
			for _, r := range m.recs {
				if len(r.ct) == len(ct) {
					// decryption is a function: same nonce and ciphertext => same plaintext
					cs = append(cs, ts.Implies(ts.And(in.strEq(Str{r.nonce}, Str{nonce}), in.strEq(Str{r.ct}, Str{ct})), in.strEq(Str{r.pt}, Str{pt})))
				}
			}
			if len(cs) > 0 {
				in.assume(ts.And(cs...))
			}
			m.recs = append(m.recs, &aeadRecord{nonce: nonce, pt: pt, ct: ct})
		}
		return in.appendInto(a[1].(Slice), dst, ct)
	}
	I["(*crypto/cipher.gcm).Open"] = func(in *Interp, fr *frame, a []Value) Value {
		m := a[0].(Ptr).Obj.Tag.(*aeadModel)
		dst := in.sliceBytesOrNil(a[1].(Slice))
		nonce := in.sliceBytesOrNil(a[2].(Slice))
		ct := in.sliceBytesOrNil(a[3].(Slice))
		if len(nonce) != 12 {
			panic(goPanic{Iface{T: types.Typ[types.String], V: in.strConst("crypto/cipher: incorrect nonce length given to GCM")}})
		}
		ts := in.ts
		for _, r := range m.recs {
			if len(r.ct) != len(ct) {
				continue
			}
			if in.Branch(ts.And(in.strEq(Str{r.nonce}, Str{nonce}), in.strEq(Str{r.ct}, Str{ct}))) {
				if len(dst)+len(r.pt) == 0 {
					return Tuple{Slice{Obj: in.newArray(types.Typ[types.Byte], 0)}, Iface{}}
				}
				return Tuple{in.appendInto(a[1].(Slice), dst, r.pt), Iface{}}
			}
		}
		// the same key in another AEAD object (another factory instance) opens what that one sealed:
		// instances are separated by their keys, not by their identity
		for _, mm := range in.env.aeads {
			if mm == m || len(mm.key) != len(m.key) {
				continue
			}
			keq := in.strEq(Str{mm.key}, Str{m.key})
			if keq.IsConst() && !keq.IsTrue() {
				continue
			}
			for _, r := range mm.recs {
				if len(r.ct) != len(ct) {
					continue
				}
				if in.Branch(ts.And(keq, ts.And(in.strEq(Str{r.nonce}, Str{nonce}), in.strEq(Str{r.ct}, Str{ct})))) {
					if len(dst)+len(r.pt) == 0 {
						return Tuple{Slice{Obj: in.newArray(types.Typ[types.Byte], 0)}, Iface{}}
					}
					return Tuple{in.appendInto(a[1].(Slice), dst, r.pt), Iface{}}
				}
			}
		}
		// INT-CTXT: anything this key did not seal is rejected
		return Tuple{Slice{}, in.newErrorf("cipher: message authentication failed")}
	}
	// vpSealWith(aead, plaintext) is just aead.Seal via the interface; nothing needed.

	// ---- encoding/json ----
	I["encoding/json.NewDecoder"] = func(in *Interp, fr *frame, a []Value) Value {
		t := in.namedType("encoding/json", "Decoder")
		o := in.newObj(t)
		o.Tag = a[0].(Iface)
		return Ptr{Obj: o}
	}
	I["(*encoding/json.Decoder).Decode"] = func(in *Interp, fr *frame, a []Value) Value {
		r := a[0].(Ptr).Obj.Tag.(Iface)
		if pt, ok := r.T.(*types.Pointer); ok {
			if mm, ok := r.V.(Ptr).Obj.Tag.(*maxBytesModel); ok && pt != nil {
				// http.MaxBytesReader: the body is cut off after limit bytes
				r = mm.inner
				if size := in.harnessBodySize(r); size != nil {
					if in.Branch(in.ts.Slt(mm.limit, size)) {
						return in.newErrorf("http: request body too large")
					}
				}
			}
		}
		doc, malformed := in.harnessDoc(r)
		if malformed {
			return in.newErrorf("invalid character 'x' looking for beginning of value")
		}
		target := a[1].(Iface)
		return in.decodeDoc(doc, target, "json", false)
	}
	I["(*encoding/json.Decoder).DisallowUnknownFields"] = func(in *Interp, fr *frame, a []Value) Value { return nil }
	I["encoding/json.NewEncoder"] = func(in *Interp, fr *frame, a []Value) Value {
		t := in.namedType("encoding/json", "Encoder")
		o := in.newObj(t)
		o.Tag = a[0].(Iface)
		return Ptr{Obj: o}
	}
	I["(*encoding/json.Encoder).Encode"] = func(in *Interp, fr *frame, a []Value) Value {
		w := a[0].(Ptr).Obj.Tag.(Iface)
		// hand the value to the harness recorder if it wants it, then write a placeholder body
		if w.T != nil {
			ms := in.P.Prog.MethodSets.MethodSet(w.T)
			for i := 0; i < ms.Len(); i++ {
				if ms.At(i).Obj().Name() == "vpEncoded" {
					in.call(in.P.Prog.MethodValue(ms.At(i)), []Value{w.V, a[1]}, nil, fr)
				}
			}
			fn := in.lookupMethodByName(w.T, "Write")
			in.call(fn, []Value{w.V, in.newByteSlice(in.strConst("{}\n").B)}, nil, fr)
		}
		return Iface{}
	}
	I["encoding/json.Marshal"] = func(in *Interp, fr *frame, a []Value) Value {
		// the text is opaque; the document (built from the value following its json tags) is
		// remembered under the returned buffer so that an outgoing request body can be decoded
		sl := in.newByteSlice(in.strConst("{marshalled}").B)
		if in.env.marshalled == nil {
			in.env.marshalled = map[*Obj]Iface{}
		}
		in.env.marshalled[sl.Obj] = in.encodeDoc(a[0].(Iface), "json")
		return Tuple{sl, Iface{}}
	}

	// zxcvbn.PasswordStrength(password, userInputs): an uninterpreted scoring function of the
	// password and the user inputs (functional consistency only): score 0..4, entropy and crack
	// time arbitrary non-negative values (31 bits, as float64).
	I["github.com/nbutton23/zxcvbn-go.PasswordStrength"] = func(in *Interp, fr *frame, a []Value) Value {
		ts := in.ts
		args := [][]*Term{a[0].(Str).B}
		if sl, ok := a[1].(Slice); ok {
			for i := 0; i < sl.Len; i++ {
				args = append(args, sl.Obj.Slots[sl.Off+i].(Str).B)
			}
		}
		res := in.ufApplyKind("zxcvbn", args, 9, false)
		t := in.namedType("github.com/nbutton23/zxcvbn-go/scoring", "MinEntropyMatch")
		st := under(t).(*types.Struct)
		v := in.zero(t).(StructV)
		u31 := func(b []*Term) *Term {
			x := b[0]
			for _, y := range b[1:] {
				x = ts.Concat(x, y)
			}
			return ts.BvAnd(ts.Zext(x, 64), ts.Const(64, 1<<31-1))
		}
		for i := 0; i < st.NumFields(); i++ {
			switch st.Field(i).Name() {
			case "Password":
				v[i] = a[0]
			case "Score":
				sc := ts.Zext(res[0], 64)
				in.assume(ts.Ule(sc, ts.Const(64, 4)))
				v[i] = sc
			case "Entropy":
				v[i] = ts.FPFrom(u31(res[1:5]), false)
			case "CrackTime":
				v[i] = ts.FPFrom(u31(res[5:9]), false)
			}
		}
		return v
	}
	I["net/http.MaxBytesReader"] = func(in *Interp, fr *frame, a []Value) Value {
		t := in.namedType("net/http", "maxBytesReader")
		o := in.newObj(t)
		o.Tag = &maxBytesModel{inner: a[1].(Iface), limit: a[2].(*Term)}
		return Iface{T: types.NewPointer(t), V: Ptr{Obj: o}}
	}
	I["vp:vpRemoteURL"] = func(in *Interp, fr *frame, a []Value) Value { return in.strConst("https://master.example/api/update") }
	// ---- net/http client: an outgoing request is handed to the harness endpoint ----
	I["net/http.NewRequest"] = func(in *Interp, fr *frame, a []Value) Value {
		t := in.namedType("net/http", "Request")
		o := in.newObj(t)
		in.setField(o, t, "Method", a[0])
		in.setField(o, t, "Header", &MapObj{KT: types.Typ[types.String]})
		rm := &httpReqModel{method: a[0].(Str), url: a[1].(Str)}
		if body := a[2].(Iface); body.T != nil {
			rm.hasBody = true
			if pt, ok := body.T.(*types.Pointer); ok {
				if n, ok := pt.Elem().(*types.Named); ok && n.Obj().Pkg() != nil && n.Obj().Pkg().Path() == "bytes" && n.Obj().Name() == "Reader" {
					bp := body.V.(Ptr)
					bst := under(n).(*types.Struct)
					if sl, ok := in.loadAt(bp.Obj, bp.Off+in.fieldOffset(bst, 0), bst.Field(0).Type()).(Slice); ok && sl.Obj != nil {
						if d, ok := in.env.marshalled[sl.Obj]; ok {
							rm.doc, rm.hasDoc = d, true
						}
					}
				}
			}
		}
		o.Tag = rm
		return Tuple{Ptr{Obj: o}, Iface{}}
	}
	I["(*net/http.Client).Do"] = func(in *Interp, fr *frame, a []Value) Value {
		rp := a[1].(Ptr)
		rm, ok := rp.Obj.Tag.(*httpReqModel)
		if !ok {
			panic(engineErr("http.Client.Do on a request not built by http.NewRequest"))
		}
		var ep *ssa.Function
		for f := fr; f != nil && ep == nil; f = f.caller {
			if f.fn.Pkg != nil {
				ep = f.fn.Pkg.Func("vpRemoteEndpoint")
			}
		}
		if ep == nil {
			return Tuple{Ptr{}, in.newErrorf("dial tcp: connection refused (no vpRemoteEndpoint in the harness)")}
		}
		t := in.namedType("net/http", "Request")
		st := under(t).(*types.Struct)
		var hdr *MapObj
		for i := 0; i < st.NumFields(); i++ {
			if st.Field(i).Name() == "Header" {
				hdr, _ = in.loadAt(rp.Obj, rp.Off+in.fieldOffset(st, i), st.Field(i).Type()).(*MapObj)
			}
		}
		ctype := Str{}
		if hdr != nil {
			for _, e := range hdr.Entries {
				if ks, ok := e.K.(Str).Concrete(); ok && strings.EqualFold(ks, "Content-Type") {
					if sl := e.V.(Slice); sl.Len > 0 {
						ctype = sl.Obj.Slots[sl.Off].(Str)
					}
				}
			}
		}
		doc := Iface{}
		if rm.hasDoc {
			doc = rm.doc
		}
		// vpRemoteEndpoint(method, url, contentType string, doc interface{}) int: status, < 0 = transport error
		code := in.call(ep, []Value{rm.method, rm.url, ctype, doc}, nil, fr).(*Term)
		if !code.IsConst() {
			panic(engineErr("vpRemoteEndpoint returned a symbolic status"))
		}
		cv := code.Val
		if int64(cv) < 0 {
			return Tuple{Ptr{}, in.newErrorf("Post: transport error")}
		}
		rt := in.namedType("net/http", "Response")
		ro := in.newObj(rt)
		in.setField(ro, rt, "StatusCode", in.intConst(int64(cv)))
		in.setField(ro, rt, "Status", in.strConst(fmt.Sprintf("%d", cv)))
		if g := in.P.Pkgs["net/http"].Var("NoBody"); g != nil { // a response always has a body to close
			nb := in.load(Ptr{Obj: in.global(g)}, g.Type().(*types.Pointer).Elem())
			in.setField(ro, rt, "Body", Iface{T: g.Type().(*types.Pointer).Elem(), V: nb})
		}
		return Tuple{Ptr{Obj: ro}, Iface{}}
	}

	// ---- yaml.v3 ----
	I["gopkg.in/yaml.v3.NewDecoder"] = func(in *Interp, fr *frame, a []Value) Value {
		t := in.namedType("gopkg.in/yaml.v3", "Decoder")
		o := in.newObj(t)
		o.Tag = &yamlDec{r: a[0].(Iface)}
		return Ptr{Obj: o}
	}
	I["(*gopkg.in/yaml.v3.Decoder).KnownFields"] = func(in *Interp, fr *frame, a []Value) Value {
		a[0].(Ptr).Obj.Tag.(*yamlDec).known = a[1].(*Term).IsTrue()
		return nil
	}
	I["(*gopkg.in/yaml.v3.Decoder).Decode"] = func(in *Interp, fr *frame, a []Value) Value {
		d := a[0].(Ptr).Obj.Tag.(*yamlDec)
		f := fileOf(d.r.V)
		if f == nil {
			panic(engineErr("yaml decoder on a non-file reader"))
		}
		doc, ok := in.env.yamlDocs[f.path]
		if !ok {
			return in.newErrorf("yaml: document is not valid YAML (no modelled document for %s)", f.path)
		}
		if doc == nil {
			return in.newErrorf("yaml: malformed document")
		}
		in.convFrame = fr
		return in.decodeDoc(doc.(Iface), a[1].(Iface), "yaml", d.known)
	}
	I["(*gopkg.in/yaml.v3.Node).Decode"] = func(in *Interp, fr *frame, a []Value) Value {
		n, ok := a[0].(Ptr).Obj.Tag.(*yamlNode)
		if !ok {
			panic(engineErr("yaml.Node.Decode on a node not built by the document model"))
		}
		in.convFrame = fr
		return in.decodeDoc(n.doc, a[1].(Iface), "yaml", false)
	}
	// vpYAMLFile(path, doc): engine: remember the document for path (and create the file); doc == nil: malformed
	I["vp:vpYAMLFile"] = func(in *Interp, fr *frame, a []Value) Value {
		fs := in.env.FS()
		was := fs.tracing
		fs.tracing = false
		f, e := fs.openFile(a[0].(Str), oWRONLY|oCREATE|oTRUNC, 0600)
		fs.tracing = was
		if e.T != nil {
			panic(engineErr("vpYAMLFile: cannot create file"))
		}
		vf := fileOf(f)
		vf.ino.data = in.strConst("# modelled yaml document\n").B
		d := a[1].(Iface)
		if d.T == nil {
			in.env.yamlDocs[vf.path] = nil
		} else {
			in.env.yamlDocs[vf.path] = d
		}
		return nil
	}

	// ---- urfave/cli: contexts built by the harness (vpCliContext) ----
	// vpCliContext(globals map[string]string, locals map[string]string, args []string) *cli.Context
	I["vp:vpCliContext"] = func(in *Interp, fr *frame, a []Value) Value {
		t := in.namedType("github.com/urfave/cli", "Context")
		o := in.newObj(t)
		o.Tag = &cliModel{globals: a[0].(*MapObj), locals: a[1].(*MapObj), args: a[2].(Slice)}
		return Ptr{Obj: o}
	}
	cliGet := func(in *Interp, m *MapObj, k Value) (Str, bool) {
		if m != nil {
			for _, e := range m.Entries {
				if in.strEq(e.K.(Str), k.(Str)).IsTrue() {
					return e.V.(Str), true
				}
			}
		}
		return Str{}, false
	}
	I["(*github.com/urfave/cli.Context).Args"] = func(in *Interp, fr *frame, a []Value) Value {
		return a[0].(Ptr).Obj.Tag.(*cliModel).args
	}
	I["(*github.com/urfave/cli.Context).GlobalString"] = func(in *Interp, fr *frame, a []Value) Value {
		s, _ := cliGet(in, a[0].(Ptr).Obj.Tag.(*cliModel).globals, a[1])
		return s
	}
	I["(*github.com/urfave/cli.Context).String"] = func(in *Interp, fr *frame, a []Value) Value {
		s, _ := cliGet(in, a[0].(Ptr).Obj.Tag.(*cliModel).locals, a[1])
		return s
	}
	cliBool := func(global bool) Intrinsic {
		return func(in *Interp, fr *frame, a []Value) Value {
			cm := a[0].(Ptr).Obj.Tag.(*cliModel)
			m := cm.locals
			if global {
				m = cm.globals
			}
			s, ok := cliGet(in, m, a[1])
			if !ok {
				return in.ts.False
			}
			return in.strEq(s, in.strConst("true"))
		}
	}
	I["(*github.com/urfave/cli.Context).GlobalBool"] = cliBool(true)
	I["(*github.com/urfave/cli.Context).Bool"] = cliBool(false)
	I["github.com/urfave/cli.ShowCommandHelp"] = func(in *Interp, fr *frame, a []Value) Value { return Iface{} }
	I["github.com/howeyc/gopass.GetPasswd"] = func(in *Interp, fr *frame, a []Value) Value {
		return Tuple{Slice{}, in.newErrorf("no terminal")}
	}

	// ---- net/http helpers ----
	I["(*net/http.Request).SetBasicAuth"] = func(in *Interp, fr *frame, a []Value) Value {
		a[0].(Ptr).Obj.Tag = [2]Str{a[1].(Str), a[2].(Str)}
		return nil
	}
	I["(*net/http.Request).BasicAuth"] = func(in *Interp, fr *frame, a []Value) Value {
		pair, ok := a[0].(Ptr).Obj.Tag.([2]Str)
		if !ok {
			return Tuple{Str{}, Str{}, in.ts.False}
		}
		// the header carries user ":" password; the parser cuts at the first ':'
		joined := append(append(append([]*Term(nil), pair[0].B...), in.byteConst(':')), pair[1].B...)
		i := in.indexByte(joined, in.byteConst(':'))
		return Tuple{Str{joined[:i]}, Str{joined[i+1:]}, in.ts.True}
	}
	hdrKey := func(in *Interp, m *MapObj, k Value) int {
		for i, e := range m.Entries {
			if in.strEq(e.K.(Str), k.(Str)).IsTrue() {
				return i
			}
		}
		return -1
	}
	I["net/http.Header.Set"] = func(in *Interp, fr *frame, a []Value) Value {
		m := a[0].(*MapObj)
		sl := Slice{Obj: in.newArray(types.Typ[types.String], 1), Len: 1, Cap: 1}
		sl.Obj.Slots[0] = a[2]
		if i := hdrKey(in, m, a[1]); i >= 0 {
			in.mapTouch(m)
			m.Entries[i].V = sl
		} else {
			in.mapTouch(m)
			m.Entries = append(m.Entries, mapEntry{a[1], sl})
		}
		return nil
	}
	I["(net/http.Header).Set"] = I["net/http.Header.Set"]
	I["net/http.Header.Get"] = func(in *Interp, fr *frame, a []Value) Value {
		m := a[0].(*MapObj)
		if m == nil {
			return Str{}
		}
		if i := hdrKey(in, m, a[1]); i >= 0 {
			sl := m.Entries[i].V.(Slice)
			if sl.Len > 0 {
				return sl.Obj.Slots[sl.Off]
			}
		}
		return Str{}
	}
	I["(net/http.Header).Get"] = I["net/http.Header.Get"]
	I["net/http.Header.Del"] = func(in *Interp, fr *frame, a []Value) Value {
		m := a[0].(*MapObj)
		if m != nil {
			if i := hdrKey(in, m, a[1]); i >= 0 {
				in.mapTouch(m)
				m.Entries = append(append([]mapEntry(nil), m.Entries[:i]...), m.Entries[i+1:]...)
			}
		}
		return nil
	}
	I["(net/http.Header).Del"] = I["net/http.Header.Del"]
}

type maxBytesModel struct {
	inner Iface
	limit *Term
}

// harnessBodySize: the size field of a harness request body (nil if it has none).
func (in *Interp) harnessBodySize(r Iface) *Term {
	pt, ok := r.T.(*types.Pointer)
	if !ok {
		return nil
	}
	named, ok := pt.Elem().(*types.Named)
	if !ok || named.Obj().Name() != "vpBody" {
		return nil
	}
	st := under(named).(*types.Struct)
	o := r.V.(Ptr)
	for i := 0; i < st.NumFields(); i++ {
		if st.Field(i).Name() == "size" {
			if t, ok := in.loadAt(o.Obj, o.Off+in.fieldOffset(st, i), st.Field(i).Type()).(*Term); ok {
				return t
			}
		}
	}
	return nil
}

type httpReqModel struct {
	method, url Str
	hasBody     bool
	hasDoc      bool
	doc         Iface
}

// encodeDoc is the inverse of decodeDoc for flat structs of strings, booleans and integers:
// a map[string]interface{} document following the struct tags (omitempty honoured).
func (in *Interp) encodeDoc(v Iface, tagKey string) Iface {
	if v.T == nil {
		return Iface{}
	}
	t := v.T
	val := v.V
	if pt, ok := under(t).(*types.Pointer); ok {
		p := val.(Ptr)
		if p.Obj == nil {
			return Iface{}
		}
		t = pt.Elem()
		val = in.loadAt(p.Obj, p.Off, t)
	}
	st, ok := under(t).(*types.Struct)
	if !ok {
		return Iface{T: t, V: val} // scalars are their own documents
	}
	sv, ok := val.(StructV)
	if !ok {
		panic(engineErr("encodeDoc: unexpected struct representation %T", val))
	}
	m := &MapObj{KT: types.Typ[types.String]}
	for i := 0; i < st.NumFields(); i++ {
		f := st.Field(i)
		if !f.Exported() {
			continue
		}
		name, opts := structTag(st.Tag(i), tagKey)
		if name == "-" {
			continue
		}
		if name == "" {
			name = f.Name()
		}
		fv := sv[i]
		switch u := under(f.Type()).(type) {
		case *types.Basic:
			if strings.Contains(opts, "omitempty") {
				switch x := fv.(type) {
				case Str:
					if len(x.B) == 0 {
						continue
					}
				case *Term:
					if x.Sort.K == SBool {
						if !in.Branch(x) {
							continue
						}
					} else if in.Branch(in.ts.Eq(x, in.ts.Const(x.Sort.W, 0))) {
						continue
					}
				}
			}
			_ = u
			m.Entries = append(m.Entries, mapEntry{in.strConst(name), Iface{T: f.Type(), V: fv}})
		default:
			panic(engineErr("encodeDoc: field %s of type %v is not modelled", f.Name(), f.Type()))
		}
	}
	return Iface{T: types.NewMap(types.Typ[types.String], types.NewInterfaceType(nil, nil)), V: m}
}

type cliModel struct {
	globals, locals *MapObj
	args            Slice
}

type yamlNode struct{ doc Iface }

type yamlDec struct {
	r     Iface
	known bool
}

// harnessDoc extracts the document carried by a harness request body (*vpBody{doc interface{}, malformed bool}).
func (in *Interp) harnessDoc(r Iface) (Iface, bool) {
	if r.T == nil {
		panic(engineErr("json decoder on nil reader"))
	}
	pt, ok := r.T.(*types.Pointer)
	if !ok {
		panic(engineErr("json decoder on unmodelled reader %v", r.T))
	}
	named, ok := pt.Elem().(*types.Named)
	if !ok || named.Obj().Name() != "vpBody" {
		panic(engineErr("json decoder on unmodelled reader %v", r.T))
	}
	st := under(named).(*types.Struct)
	o := r.V.(Ptr)
	var doc Iface
	malformed := false
	for i := 0; i < st.NumFields(); i++ {
		v := in.loadAt(o.Obj, o.Off+in.fieldOffset(st, i), st.Field(i).Type())
		switch st.Field(i).Name() {
		case "doc":
			doc = v.(Iface)
		case "malformed":
			malformed = v.(*Term).IsTrue()
		}
	}
	return doc, malformed
}

// decodeDoc maps a document (map[string]interface{} tree) onto *target following struct tags.
func (in *Interp) decodeDoc(doc Iface, target Iface, tagKey string, known bool) Value {
	pt, ok := target.T.(*types.Pointer)
	if !ok {
		return in.newErrorf("%s: Unmarshal(non-pointer)", tagKey)
	}
	p := target.V.(Ptr)
	if err := in.decodeInto(doc, p, pt.Elem(), tagKey, known); err != "" {
		return in.newErrorf("%s: %s", tagKey, err)
	}
	return Iface{}
}

func (in *Interp) decodeInto(doc Iface, p Ptr, t types.Type, tagKey string, known bool) string {
	if doc.T == nil {
		return "" // null: leaves the zero value
	}
	if tagKey == "yaml" {
		// yaml.v3: a type with UnmarshalYAML(*yaml.Node) decodes itself; the node it gets decodes
		// with a *fresh* decoder (Node.Decode does not inherit KnownFields)
		var fn *ssa.Function
		if _, named := t.(*types.Named); named {
			ms := in.P.Prog.MethodSets.MethodSet(types.NewPointer(t))
			for i := 0; i < ms.Len(); i++ {
				if ms.At(i).Obj().Name() == "UnmarshalYAML" {
					fn = in.P.Prog.MethodValue(ms.At(i))
				}
			}
		}
		if fn != nil && fn.Signature.Params().Len() == 1 {
			if np, ok := fn.Signature.Params().At(0).Type().(*types.Pointer); ok {
				if nn, ok := np.Elem().(*types.Named); ok && nn.Obj().Name() == "Node" {
					no := in.newObj(nn)
					no.Tag = &yamlNode{doc: doc}
					in.setField(no, nn, "Line", in.intConst(1))
					res := in.call(fn, []Value{p, Ptr{Obj: no}}, nil, in.curFrame())
					if e, ok := res.(Iface); ok && e.T != nil {
						return "custom unmarshaler failed"
					}
					return ""
				}
			}
		}
	}
	switch u := under(t).(type) {
	case *types.Struct:
		m, ok := doc.V.(*MapObj)
		if !ok {
			return "cannot unmarshal non-object into struct"
		}
		used := make([]bool, len(m.Entries))
		for i := 0; i < u.NumFields(); i++ {
			f := u.Field(i)
			name, _ := structTag(u.Tag(i), tagKey)
			if name == "-" {
				continue
			}
			if name == "" {
				name = f.Name()
				if tagKey == "yaml" {
					name = strings.ToLower(name)
				}
			}
			if !f.Exported() {
				continue
			}
			for j, e := range m.Entries {
				ks, _ := e.K.(Str).Concrete()
				match := ks == name
				if tagKey == "json" && !match {
					match = strings.EqualFold(ks, name)
				}
				if match {
					used[j] = true
					fp := Ptr{Obj: p.Obj, Off: p.Off + in.fieldOffset(u, i)}
					if err := in.decodeInto(e.V.(Iface), fp, f.Type(), tagKey, known); err != "" {
						return "field " + name + ": " + err
					}
				}
			}
		}
		if known {
			for j, e := range m.Entries {
				if !used[j] {
					ks, _ := e.K.(Str).Concrete()
					return "field " + ks + " not found in type"
				}
			}
		}
		return ""
	case *types.Pointer:
		o := in.newObj(u.Elem())
		if err := in.decodeInto(doc, Ptr{Obj: o}, u.Elem(), tagKey, known); err != "" {
			return err
		}
		in.storeAt(p.Obj, p.Off, t, Ptr{Obj: o})
		return ""
	case *types.Slice:
		l, ok := doc.V.(Slice)
		if !ok {
			return "cannot unmarshal non-sequence into slice"
		}
		es := in.slotCount(u.Elem())
		arr := in.newArray(u.Elem(), l.Len)
		for i := 0; i < l.Len; i++ {
			if err := in.decodeInto(l.Obj.Slots[l.Off+i].(Iface), Ptr{Obj: arr, Off: i * es}, u.Elem(), tagKey, known); err != "" {
				return err
			}
		}
		in.storeAt(p.Obj, p.Off, t, Slice{Obj: arr, Len: l.Len, Cap: l.Len})
		return ""
	case *types.Basic:
		switch {
		case u.Info()&types.IsString != 0:
			s, ok := doc.V.(Str)
			if !ok {
				if tagKey == "yaml" {
					// yaml converts scalars to strings
					if tv, ok := doc.V.(*Term); ok && tv.Sort.K == SBV {
						in.storeAt(p.Obj, p.Off, t, in.decimal(tv, in.isSigned(doc.T)))
						return ""
					}
				}
				return "cannot unmarshal non-string into string"
			}
			in.storeAt(p.Obj, p.Off, t, s)
			return ""
		case u.Info()&types.IsBoolean != 0:
			b, ok := doc.V.(*Term)
			if !ok || b.Sort.K != SBool {
				return "cannot unmarshal non-bool into bool"
			}
			in.storeAt(p.Obj, p.Off, t, b)
			return ""
		case u.Info()&types.IsInteger != 0:
			v, ok := doc.V.(*Term)
			if !ok || v.Sort.K != SBV {
				return "cannot unmarshal non-number into integer"
			}
			w, signed := intWidth(u)
			srcSigned := in.isSigned(doc.T)
			ts := in.ts
			v64 := ts.Resize(v, 64, srcSigned)
			// range check
			var okc *Term
			if signed {
				if w == 64 {
					if srcSigned {
						okc = ts.True
					} else {
						okc = ts.Sle(ts.Const(64, 0), v64)
					}
				} else {
					lo := ts.Const(64, uint64(-(int64(1) << uint(w-1))))
					hi := ts.Const(64, uint64((int64(1)<<uint(w-1))-1))
					okc = ts.And(ts.Sle(lo, v64), ts.Sle(v64, hi))
					if !srcSigned {
						okc = ts.Ule(v64, hi)
					}
				}
			} else {
				if srcSigned {
					okc = ts.Sle(ts.Const(64, 0), v64)
					if w < 64 {
						okc = ts.And(okc, ts.Ule(v64, ts.Const(64, mask(w))))
					}
				} else if w < 64 {
					okc = ts.Ule(v64, ts.Const(64, mask(w)))
				} else {
					okc = ts.True
				}
			}
			if !in.Branch(okc) {
				return "cannot unmarshal number out of range"
			}
			in.storeAt(p.Obj, p.Off, t, ts.Resize(v64, w, false))
			return ""
		}
	case *types.Interface:
		in.storeAt(p.Obj, p.Off, t, doc)
		return ""
	case *types.Map:
		return "" // not needed
	}
	return "unsupported target type " + t.String()
}
