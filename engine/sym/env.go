package sym

// Environment models: clock, randomness, crypto UFs, vfs. Every model is part of the claim (DESIGN §3).

type ufCall struct {
	args [][]*Term
	res  []*Term
}

type poolKey struct {
	o   *Obj
	off int
}

type envState struct {
	in             *Interp
	now            *Term // current clock in unix seconds (BV64), non-decreasing
	nowNs          *Term // nanoseconds of the last reading (zero-extended 30-bit variable)
	nsTerms        map[int]bool
	ticks          []*Term
	clockSecs      map[int]bool // seconds terms that are clock readings (bounded)
	timers         []*timerModel
	fs             *vfs
	extra          map[string]interface{}
	randCalls      int
	randOuts       [][]*Term
	randVar        map[int]int
	randClaimed    map[int]bool
	secretVars     map[int]bool
	sigChans       []*ChanObj
	procs          []*procModel
	hookKind       int
	hookStartFails bool
	timerFires     int
	marshalled     map[*Obj]Iface
	gomaxprocs     *Term
	pools          map[poolKey][]Value
	poolRepo       map[*Obj]bool
	aeads          []*aeadModel
	numcpu         *Term
	yamlDocs       map[string]interface{} // resolved path -> Iface document (nil = malformed)
}

type timerModel struct {
	ch    *ChanObj
	armed bool
	obj   *Obj
	seq   int
}

func newEnvState(in *Interp) *envState {
	return &envState{in: in, extra: map[string]interface{}{}, randVar: map[int]int{}, randClaimed: map[int]bool{}, secretVars: map[int]bool{}, yamlDocs: map[string]interface{}{}}
}

func (e *envState) snapshotExtra() map[string]interface{} {
	if len(e.extra) == 0 {
		return nil
	}
	m := map[string]interface{}{}
	for k, v := range e.extra {
		m[k] = v
	}
	return m
}

// fireTimer fires one armed timer when nothing else can run; returns false if none is armed.
func (s *scheduler) fireTimer() bool {
	e := s.in.env
	for _, t := range e.timers {
		if t.armed {
			t.armed = false
			s.in.trySend(t.ch, s.in.zeroTime())
			e.timerFires++
			return true
		}
	}
	return false
}

func (in *Interp) zeroTime() Value {
	pkg := in.P.Pkgs["time"]
	if pkg == nil {
		return nil
	}
	return in.zero(pkg.Type("Time").Type())
}

func RegisterEnv(p *Program) {
	registerProc(p)
	registerWeb(p)
	registerPersist(p)
	registerStrconv(p)
	registerVFS(p)
	registerTimeRand(p)
}

// Tier is 0 for quick, 1 for thorough (read by harnesses through vpTier()).
var Tier int
