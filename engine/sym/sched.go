package sym

import (
	"fmt"
	"go/types"

	"golang.org/x/tools/go/ssa"
)

// Cooperative scheduler: every interpreted goroutine runs on its own host goroutine but
// only the holder of the baton executes. Channel operations are scheduling points.

type gStatus int

const (
	gRunnable gStatus = iota
	gBlocked
	gDone
)

type goroutine struct {
	id     int
	status gStatus
	resume chan struct{}
	// wake-up info filled by the waker
	wokeCase int
	wokeVal  Value
	wokeOK   bool
	waiting  []*waiter
	name     string
	daemon   bool
}

type waiter struct {
	g      *goroutine
	ch     *ChanObj
	send   bool
	val    Value
	caseI  int
	active *bool // shared among the waiters of one select: false once fired
}

type ChanObj struct {
	id     int
	cap    int
	buf    []Value
	closed bool
	recvq  []*waiter
	sendq  []*waiter
	timer  *timerModel
}

type scheduler struct {
	in            *Interp
	gs            []*goroutine
	cur           *goroutine
	explore       bool // fork over runnable goroutines at scheduling points
	killing       bool
	done          chan struct{} // main finished or aborted
	abort         interface{}   // panic value raised in a non-main goroutine
	nextChan      int
	events        []string
	fine          bool
	preemptBudget int
	settling      *goroutine // goroutine waiting in settle(): resumed when nothing else is runnable
}

func newScheduler(in *Interp) *scheduler {
	return &scheduler{in: in}
}

type killedPanic struct{}

// runMain runs f as goroutine 0 on the calling host goroutine.
func (s *scheduler) runMain(f func()) {
	g := &goroutine{id: 0, resume: make(chan struct{}, 1), name: "main"}
	s.gs = append(s.gs, g)
	s.cur = g
	f()
	g.status = gDone
}

func (s *scheduler) spawn(fn Value, args []Value) {
	in := s.in
	g := &goroutine{id: len(s.gs), resume: make(chan struct{}, 1)}
	if c, ok := fn.(*Closure); ok && c != nil && c.Fn != nil {
		g.name = c.Fn.String()
	}
	s.gs = append(s.gs, g)
	go func() {
		<-g.resume
		defer func() {
			r := recover()
			g.status = gDone
			if _, ok := r.(killedPanic); ok {
				s.done <- struct{}{}
				return
			}
			if r != nil {
				// propagate to main: path ends with this panic
				if s.abort == nil {
					s.abort = r
				}
			}
			s.handoff(g)
		}()
		if s.killing {
			panic(killedPanic{})
		}
		in.callValueG(fn, args, g)
	}()
}

// callValueG runs a function value as the body of goroutine g.
func (in *Interp) callValueG(fn Value, args []Value, g *goroutine) {
	switch x := fn.(type) {
	case *Closure:
		if x.Intr != "" {
			in.P.Intr[x.Intr](in, nil, append(append([]Value{}, x.Env...), args...))
			return
		}
		in.call(x.Fn, args, x.Env, nil)
	case *ssa.Builtin:
		in.builtin(x, args, nil, nil, nil)
	default:
		panic(engineErr("go of %T", fn))
	}
}

// handoff is called by a goroutine that finished: pass the baton on (never returns the baton to g).
func (s *scheduler) handoff(g *goroutine) {
	next := s.pick(nil)
	if next == nil {
		// nothing runnable: main must be blocked => wedge; wake main to report
		s.wakeMainForWedge()
		return
	}
	s.cur = next
	next.resume <- struct{}{}
}

func (s *scheduler) wakeMainForWedge() {
	m := s.gs[0]
	if m.status == gDone {
		return
	}
	m.wokeCase = -2 // wedge marker
	s.cur = m
	m.resume <- struct{}{}
}

// runnable returns the runnable goroutines in id order.
func (s *scheduler) runnable() []*goroutine {
	var out []*goroutine
	for _, g := range s.gs {
		if g.status == gRunnable {
			out = append(out, g)
		}
	}
	return out
}

// pick chooses the next goroutine to run (nil if none). prefer is tried first when not exploring.
func (s *scheduler) pick(prefer *goroutine) *goroutine {
	if s.abort != nil {
		// a goroutine died with a panic: give control to main so the path can end
		m := s.gs[0]
		if m.status != gDone {
			m.status = gRunnable
			m.wokeCase = -3
			return m
		}
	}
	rs := s.runnable()
	if s.settling != nil {
		var others []*goroutine
		for _, g := range rs {
			if g != s.settling {
				others = append(others, g)
			}
		}
		if len(others) == 0 {
			return s.settling
		}
		rs = others
	}
	if len(rs) == 0 {
		return nil
	}
	if s.explore && len(rs) > 1 {
		return rs[s.in.Choose(len(rs))]
	}
	if prefer != nil && prefer.status == gRunnable {
		return prefer
	}
	return rs[0]
}

// yield gives up the baton; returns when g is resumed. g.status must be set by the caller.
func (s *scheduler) yield(g *goroutine) {
	next := s.pick(nil)
	if next == g {
		return
	}
	if next == nil {
		if s.fireTimer() {
			s.yield(g)
			return
		}
		if g.id == 0 {
			s.wedge()
		}
		s.wakeMainForWedge()
	} else {
		s.cur = next
		next.resume <- struct{}{}
	}
	<-g.resume
	s.cur = g
	if s.killing {
		panic(killedPanic{})
	}
	if g.id == 0 {
		switch g.wokeCase {
		case -2:
			s.wedge()
		case -3:
			a := s.abort
			s.abort = nil
			panic(a)
		}
	}
}

func (s *scheduler) wedge() {
	desc := ""
	for _, g := range s.gs {
		if g.status == gBlocked {
			desc += fmt.Sprintf("[g%d %s blocked] ", g.id, g.name)
		}
	}
	panic(pathEnd{"wedge", desc})
}

// settle runs all other goroutines until none of them is runnable.
func (s *scheduler) settle() {
	g := s.cur
	for {
		var next *goroutine
		for _, o := range s.gs {
			if o != g && o.status == gRunnable {
				next = o
				break
			}
		}
		if next == nil {
			return
		}
		s.settling = g
		s.cur = next
		next.resume <- struct{}{}
		<-g.resume
		s.cur = g
		s.settling = nil
		if s.killing {
			panic(killedPanic{})
		}
		if g.id == 0 && g.wokeCase == -3 {
			a := s.abort
			s.abort = nil
			g.wokeCase = 0
			panic(a)
		}
	}
}

// maybeYield is a scheduling point for a goroutine that could continue.
func (s *scheduler) maybeYield() {
	// schedule exploration happens where a goroutine blocks (which runnable goroutine goes next)
	// and at select (which ready case); preemption at non-blocking channel operations is explored
	// in fine mode under a preemption bound (CHESS-style)
	if !s.explore || !s.fine || s.preemptBudget <= 0 {
		return
	}
	g := s.cur
	var others []*goroutine
	for _, o := range s.runnable() {
		if o != g {
			others = append(others, o)
		}
	}
	if len(others) == 0 {
		return
	}
	c := s.in.Choose(1 + len(others))
	if c == 0 {
		return
	}
	s.preemptBudget--
	next := others[c-1]
	s.cur = next
	next.resume <- struct{}{}
	<-g.resume
	s.cur = g
	if s.killing {
		panic(killedPanic{})
	}
	if g.id == 0 {
		switch g.wokeCase {
		case -3:
			a := s.abort
			s.abort = nil
			g.wokeCase = 0
			panic(a)
		}
	}
}

// killAll terminates all goroutines still alive at path end.
func (s *scheduler) killAll() {
	s.killing = true
	s.done = make(chan struct{}, len(s.gs))
	n := 0
	for _, g := range s.gs[1:] {
		if g.status != gDone {
			n++
			g.resume <- struct{}{}
		}
	}
	for i := 0; i < n; i++ {
		<-s.done
	}
}

// ---------------------------------------------------------------------------
// Channels

func (in *Interp) makeChan(size int) *ChanObj {
	in.sched.nextChan++
	return &ChanObj{id: in.sched.nextChan, cap: size}
}

func (in *Interp) curG() *goroutine { return in.sched.cur }

func (s *scheduler) wake(w *waiter, val Value, ok bool) {
	*w.active = false
	g := w.g
	g.wokeCase = w.caseI
	g.wokeVal = val
	g.wokeOK = ok
	g.status = gRunnable
}

func popActive(q *[]*waiter) *waiter {
	for len(*q) > 0 {
		w := (*q)[0]
		*q = (*q)[1:]
		if *w.active {
			return w
		}
	}
	return nil
}

func hasActive(q []*waiter) bool {
	for _, w := range q {
		if *w.active {
			return true
		}
	}
	return false
}

// trySend attempts a non-blocking send; returns true if done.
func (in *Interp) trySend(ch *ChanObj, v Value) bool {
	if ch == nil {
		return false
	}
	if ch.closed {
		panic(goPanic{Iface{T: runtimeErrorType, V: in.strConst("send on closed channel")}})
	}
	if w := popActive(&ch.recvq); w != nil {
		in.sched.wake(w, v, true)
		return true
	}
	if len(ch.buf) < ch.cap {
		ch.buf = append(ch.buf, v)
		return true
	}
	return false
}

// tryRecv attempts a non-blocking receive.
func (in *Interp) tryRecv(ch *ChanObj) (Value, bool, bool) {
	if ch == nil {
		return nil, false, false
	}
	if len(ch.buf) > 0 {
		v := ch.buf[0]
		ch.buf = ch.buf[1:]
		// a blocked sender can now move its value into the buffer
		if w := popActive(&ch.sendq); w != nil {
			ch.buf = append(ch.buf, w.val)
			in.sched.wake(w, nil, true)
		}
		return v, true, true
	}
	if w := popActive(&ch.sendq); w != nil {
		in.sched.wake(w, nil, true)
		return w.val, true, true
	}
	if ch.closed {
		return nil, false, true
	}
	return nil, false, false
}

func (in *Interp) chanSend(ch *ChanObj, v Value) {
	s := in.sched
	s.maybeYield()
	if in.trySend(ch, v) {
		return
	}
	g := s.cur
	act := true
	w := &waiter{g: g, ch: ch, send: true, val: v, active: &act}
	if ch != nil {
		ch.sendq = append(ch.sendq, w)
	}
	g.status = gBlocked
	s.yield(g)
	if !g.wokeOK {
		panic(goPanic{Iface{T: runtimeErrorType, V: in.strConst("send on closed channel")}})
	}
}

func (in *Interp) chanRecv(ch *ChanObj, et types.Type) (Value, bool) {
	s := in.sched
	s.maybeYield()
	if v, ok, done := in.tryRecv(ch); done {
		if !ok {
			return in.zero(et), false
		}
		return v, true
	}
	g := s.cur
	act := true
	w := &waiter{g: g, ch: ch, active: &act}
	if ch != nil {
		ch.recvq = append(ch.recvq, w)
	}
	g.status = gBlocked
	s.yield(g)
	if !g.wokeOK {
		return in.zero(et), false
	}
	return g.wokeVal, true
}

func (in *Interp) chanClose(ch *ChanObj) {
	if ch == nil {
		panic(in.goPanicStr("close of nil channel"))
	}
	if ch.closed {
		panic(in.goPanicStr("close of closed channel"))
	}
	ch.closed = true
	for {
		w := popActive(&ch.recvq)
		if w == nil {
			break
		}
		in.sched.wake(w, nil, false)
	}
	for {
		w := popActive(&ch.sendq)
		if w == nil {
			break
		}
		in.sched.wake(w, nil, false)
	}
}

func (in *Interp) selectOp(fr *frame, x *ssa.Select) Value {
	s := in.sched
	s.maybeYield()
	type st struct {
		ch   *ChanObj
		send bool
		val  Value
	}
	states := make([]st, len(x.States))
	for i, ss := range x.States {
		states[i].ch = fr.get(ss.Chan).(*ChanObj)
		states[i].send = ss.Dir == types.SendOnly
		if states[i].send {
			states[i].val = fr.get(ss.Send)
		}
	}
	// which are ready?
	var ready []int
	for i, c := range states {
		if c.ch == nil {
			continue
		}
		if c.send {
			if c.ch.closed || hasActive(c.ch.recvq) || len(c.ch.buf) < c.ch.cap {
				ready = append(ready, i)
			}
		} else {
			if len(c.ch.buf) > 0 || hasActive(c.ch.sendq) || c.ch.closed {
				ready = append(ready, i)
			}
		}
	}
	result := func(idx int, recvOK bool, val Value) Value {
		tup := Tuple{in.intConst(int64(idx)), in.ts.Bool(recvOK)}
		for i, ss := range x.States {
			if ss.Dir == types.RecvOnly {
				et := under(ss.Chan.Type()).(*types.Chan).Elem()
				if i == idx && recvOK {
					tup = append(tup, val)
				} else {
					tup = append(tup, in.zero(et))
				}
			}
		}
		return tup
	}
	if len(ready) > 0 {
		k := ready[in.Choose(len(ready))]
		c := states[k]
		if c.send {
			in.trySend(c.ch, c.val)
			return result(k, false, nil)
		}
		v, ok, _ := in.tryRecv(c.ch)
		return result(k, ok, v)
	}
	if !x.Blocking {
		return result(-1, false, nil)
	}
	g := s.cur
	act := true
	for i, c := range states {
		if c.ch == nil {
			continue
		}
		w := &waiter{g: g, ch: c.ch, send: c.send, val: c.val, caseI: i, active: &act}
		if c.send {
			c.ch.sendq = append(c.ch.sendq, w)
		} else {
			c.ch.recvq = append(c.ch.recvq, w)
		}
	}
	g.status = gBlocked
	s.yield(g)
	k := g.wokeCase
	if states[k].send {
		if !g.wokeOK {
			panic(goPanic{Iface{T: runtimeErrorType, V: in.strConst("send on closed channel")}})
		}
		return result(k, false, nil)
	}
	return result(k, g.wokeOK, g.wokeVal)
}
