package sym

import (
	"fmt"
	"go/types"
	"math"
	"os"
	"strconv"
	"strings"
)

// RegisterCore installs the intrinsics that do not depend on an environment model.
func RegisterCore(p *Program) {
	I := p.Intr
	// --- vp API (matched by bare name, see Interp.call) ---
	I["vp:vpByte"] = func(in *Interp, fr *frame, a []Value) Value {
		t := in.fresh(labelOf(a[0]), BV(8))
		in.nondet = append(in.nondet, NondetVar{labelOf(a[0]), "byte", []*Term{t}})
		return t
	}
	I["vp:vpBool"] = func(in *Interp, fr *frame, a []Value) Value {
		t := in.fresh(labelOf(a[0]), BoolSort)
		in.nondet = append(in.nondet, NondetVar{labelOf(a[0]), "bool", []*Term{t}})
		return t
	}
	I["vp:vpU64"] = func(in *Interp, fr *frame, a []Value) Value {
		t := in.fresh(labelOf(a[0]), BV(64))
		in.nondet = append(in.nondet, NondetVar{labelOf(a[0]), "u64", []*Term{t}})
		return t
	}
	I["vp:vpInt"] = func(in *Interp, fr *frame, a []Value) Value {
		ts := in.ts
		t := in.fresh(labelOf(a[0]), BV(64))
		in.nondet = append(in.nondet, NondetVar{labelOf(a[0]), "int", []*Term{t}})
		lo, hi := a[1].(*Term), a[2].(*Term)
		if lo.IsConst() {
			in.model[t.ID] = lo.Val
		}
		delete(in.ts.Ranges, t.ID)
		c := ts.And(ts.Sle(lo, t), ts.Sle(t, hi))
		if !in.feasible(c) {
			panic(pathEnd{"assume", "vpInt empty range"})
		}
		in.assume(c)
		if lo.IsConst() && hi.IsConst() && int64(lo.Val) >= 0 && int64(hi.Val) >= int64(lo.Val) {
			in.ts.Ranges[t.ID] = [2]uint64{lo.Val, hi.Val}
		}
		return t
	}
	I["vp:vpStr"] = func(in *Interp, fr *frame, a []Value) Value {
		n := in.concInt(a[1])
		b := make([]*Term, n)
		lab := labelOf(a[0])
		for i := range b {
			b[i] = in.fresh(lab+"_"+strconv.Itoa(i), BV(8))
		}
		in.nondet = append(in.nondet, NondetVar{lab, "str", b})
		return Str{b}
	}
	I["vp:vpBytes"] = func(in *Interp, fr *frame, a []Value) Value {
		n := in.concInt(a[1])
		b := make([]*Term, n)
		lab := labelOf(a[0])
		for i := range b {
			b[i] = in.fresh(lab+"_"+strconv.Itoa(i), BV(8))
		}
		in.nondet = append(in.nondet, NondetVar{lab, "bytes", b})
		return in.newByteSlice(b)
	}
	I["vp:vpChoose"] = func(in *Interp, fr *frame, a []Value) Value {
		n := in.concInt(a[1])
		k := in.Choose(n)
		t := in.intConst(int64(k))
		in.nondet = append(in.nondet, NondetVar{labelOf(a[0]), "choice", []*Term{t}})
		return t
	}
	I["vp:vpAssume"] = func(in *Interp, fr *frame, a []Value) Value {
		c := a[0].(*Term)
		if c.IsTrue() {
			return nil
		}
		if c.IsFalse() {
			panic(pathEnd{"assume", ""})
		}
		if in.compsValid(c) && in.evalBool(c) {
			in.assume(c)
			return nil
		}
		switch in.checkWith(c) {
		case Unsat:
			panic(pathEnd{"assume", ""})
		case Sat:
			in.fetchFor(c)
		default:
			in.incomplete("solver unknown at assume")
		}
		in.assume(c)
		return nil
	}
	I["vp:vpAssert"] = func(in *Interp, fr *frame, a []Value) Value {
		in.doAssert(labelOf(a[0]), a[1].(*Term), "")
		return nil
	}
	I["vp:vpCover"] = func(in *Interp, fr *frame, a []Value) Value {
		tag := labelOf(a[0])
		if _, ok := in.res.Covers[tag]; ok {
			return nil
		}
		if _, seen := in.P.coverSeen.LoadOrStore(in.unit+"/"+tag, true); seen {
			return nil
		}
		// PC is satisfiable by construction; a witness is read off the cached component models
		in.res.Covers[tag] = in.modelValues()
		return nil
	}
	I["vp:vpAnd"] = func(in *Interp, fr *frame, a []Value) Value { return in.ts.And(a[0].(*Term), a[1].(*Term)) }
	I["vp:vpOr"] = func(in *Interp, fr *frame, a []Value) Value { return in.ts.Or(a[0].(*Term), a[1].(*Term)) }
	I["vp:vpImp"] = func(in *Interp, fr *frame, a []Value) Value { return in.ts.Implies(a[0].(*Term), a[1].(*Term)) }
	I["vp:vpIff"] = func(in *Interp, fr *frame, a []Value) Value { return in.ts.Eq(a[0].(*Term), a[1].(*Term)) }
	I["vp:vpSymbolic"] = func(in *Interp, fr *frame, a []Value) Value { return in.ts.True }
	I["vp:vpBytesEq"] = func(in *Interp, fr *frame, a []Value) Value {
		x, y := a[0].(Slice), a[1].(Slice)
		return in.strEq(Str{in.sliceBytesOrNil(x)}, Str{in.sliceBytesOrNil(y)})
	}
	I["vp:vpStrEq"] = func(in *Interp, fr *frame, a []Value) Value { return in.strEq(a[0].(Str), a[1].(Str)) }
	I["vp:vpNote"] = func(in *Interp, fr *frame, a []Value) Value {
		if in.cfg.Debug {
			s := ""
			switch x := a[1].(type) {
			case Iface:
				if x.T != nil && in.hasMethod(x.T, "Error") {
					s = in.callStringMethod(fr, x, "Error").Show()
				} else {
					s = showValue(x)
				}
			default:
				s = showValue(x)
			}
			fmt.Fprintf(os.Stderr, "NOTE %s: %s\n", labelOf(a[0]), s)
		}
		return nil
	}
	I["vp:vpSchedExplore"] = func(in *Interp, fr *frame, a []Value) Value {
		in.sched.explore = a[0].(*Term).IsTrue()
		return nil
	}
	I["vp:vpSchedExploreFine"] = func(in *Interp, fr *frame, a []Value) Value {
		n := in.concInt(a[0])
		in.sched.explore = n > 0
		in.sched.fine = n > 0
		in.sched.preemptBudget = n
		return nil
	}
	I["vp:vpYield"] = func(in *Interp, fr *frame, a []Value) Value {
		g := in.sched.cur
		in.sched.yield(g)
		return nil
	}
	I["vp:vpWriteSetBegin"] = func(in *Interp, fr *frame, a []Value) Value {
		in.writeMark = in.nextObj
		in.sharedWrites = 0
		return nil
	}
	I["vp:vpWritesOnlyFresh"] = func(in *Interp, fr *frame, a []Value) Value {
		ok := in.sharedWrites == 0
		in.writeMark = 0
		return in.ts.Bool(ok)
	}
	I["os/signal.Notify"] = func(in *Interp, fr *frame, a []Value) Value {
		in.env.sigChans = append(in.env.sigChans, a[0].(*ChanObj))
		return nil
	}
	I["os/signal.Stop"] = func(in *Interp, fr *frame, a []Value) Value { return nil }
	// vpSignalHUP delivers SIGHUP to every registered channel (non-blocking, like the runtime)
	I["vp:vpSignalHUP"] = func(in *Interp, fr *frame, a []Value) Value {
		for _, ch := range in.env.sigChans {
			sig := Iface{T: in.namedType("syscall", "Signal"), V: in.ts.Const(64, 1)}
			in.trySend(ch, sig)
		}
		in.sched.maybeYield()
		return nil
	}
	// vpSettle lets every other goroutine run until it blocks (the agent becomes idle)
	I["vp:vpSettle"] = func(in *Interp, fr *frame, a []Value) Value {
		in.sched.settle()
		return nil
	}
	// vpAwait(ch) receives from ch; returns false instead of blocking forever when nothing can
	// ever send (the agent is wedged)
	I["vp:vpAwait"] = func(in *Interp, fr *frame, a []Value) (res Value) {
		ch := a[0].(*ChanObj)
		defer func() {
			if r := recover(); r != nil {
				if pe, ok := r.(pathEnd); ok && pe.reason == "wedge" {
					in.env.extra["wedge"] = pe.msg
					res = in.ts.False
					return
				}
				panic(r)
			}
		}()
		in.chanRecv(ch, types.Typ[types.Bool])
		return in.ts.True
	}
	I["vp:vpTier"] = func(in *Interp, fr *frame, a []Value) Value { return in.intConst(int64(Tier)) }

	// --- fmt / log ---
	I["fmt.Sprintf"] = func(in *Interp, fr *frame, a []Value) Value {
		return in.sprintf(fr, a[0].(Str), a[1].(Slice))
	}
	I["fmt.Errorf"] = func(in *Interp, fr *frame, a []Value) Value {
		s := in.sprintf(fr, a[0].(Str), a[1].(Slice))
		return in.newError(s)
	}
	I["fmt.Sprint"] = func(in *Interp, fr *frame, a []Value) Value {
		sl := a[0].(Slice)
		var out []*Term
		for i := 0; i < sl.Len; i++ {
			out = append(out, in.formatArg(fr, 'v', sl.Obj.Slots[sl.Off+i]).B...)
		}
		return Str{out}
	}
	I["fmt.Sprintln"] = func(in *Interp, fr *frame, a []Value) Value {
		sl := a[0].(Slice)
		var out []*Term
		for i := 0; i < sl.Len; i++ {
			if i > 0 {
				out = append(out, in.byteConst(' '))
			}
			out = append(out, in.formatArg(fr, 'v', sl.Obj.Slots[sl.Off+i]).B...)
		}
		out = append(out, in.byteConst('\n'))
		return Str{out}
	}
	fwrite := func(in *Interp, fr *frame, w Iface, s Str) Value {
		if w.T == nil {
			panic(in.goPanicStr("runtime error: invalid memory address or nil pointer dereference"))
		}
		fn := in.lookupMethodByName(w.T, "Write")
		var buf Slice
		if len(s.B) == 0 {
			buf = Slice{Obj: in.newArray(types.Typ[types.Byte], 0)}
		} else {
			buf = in.newByteSlice(s.B)
		}
		return in.call(fn, []Value{w.V, buf}, nil, fr)
	}
	I["fmt.Fprintf"] = func(in *Interp, fr *frame, a []Value) Value {
		return fwrite(in, fr, a[0].(Iface), in.sprintf(fr, a[1].(Str), a[2].(Slice)))
	}
	I["fmt.Fprint"] = func(in *Interp, fr *frame, a []Value) Value {
		return fwrite(in, fr, a[0].(Iface), I["fmt.Sprint"](in, fr, a[1:]).(Str))
	}
	I["fmt.Fprintln"] = func(in *Interp, fr *frame, a []Value) Value {
		return fwrite(in, fr, a[0].(Iface), I["fmt.Sprintln"](in, fr, a[1:]).(Str))
	}
	nop := func(in *Interp, fr *frame, a []Value) Value { return nil }
	nopN := func(n int) Intrinsic {
		return func(in *Interp, fr *frame, a []Value) Value {
			return Tuple{in.intConst(0), Iface{}}
		}
	}
	I["fmt.Printf"] = nopN(2)
	I["fmt.Println"] = nopN(2)
	I["fmt.Print"] = nopN(2)
	for _, m := range []string{"Printf", "Println", "Print", "SetOutput", "SetFlags", "SetPrefix"} {
		I["(*log.Logger)."+m] = nop
		I["log."+m] = nop
	}
	I["(*log.Logger).Output"] = func(in *Interp, fr *frame, a []Value) Value { return Iface{} }
	I["log.New"] = func(in *Interp, fr *frame, a []Value) Value {
		return Ptr{Obj: &Obj{Slots: []Value{nil}, Tag: "logger"}}
	}
	I["log.Fatalf"] = func(in *Interp, fr *frame, a []Value) Value { panic(pathEnd{"exit", "log.Fatalf"}) }
	I["log.Fatal"] = I["log.Fatalf"]
	I["os.Exit"] = func(in *Interp, fr *frame, a []Value) Value {
		panic(pathEnd{"exit", "os.Exit"})
	}

	// --- assembly-backed helpers ---
	I["internal/bytealg.IndexByteString"] = func(in *Interp, fr *frame, a []Value) Value {
		return in.intConst(int64(in.indexByte(a[0].(Str).B, a[1].(*Term))))
	}
	I["internal/bytealg.IndexByte"] = func(in *Interp, fr *frame, a []Value) Value {
		return in.intConst(int64(in.indexByte(in.sliceBytesOrNil(a[0].(Slice)), a[1].(*Term))))
	}
	I["internal/bytealg.Equal"] = func(in *Interp, fr *frame, a []Value) Value {
		return in.strEq(Str{in.sliceBytesOrNil(a[0].(Slice))}, Str{in.sliceBytesOrNil(a[1].(Slice))})
	}
	I["bytes.Equal"] = I["internal/bytealg.Equal"]
	I["internal/bytealg.CountString"] = func(in *Interp, fr *frame, a []Value) Value {
		n := 0
		c := a[1].(*Term)
		for _, b := range a[0].(Str).B {
			if in.Branch(in.ts.Eq(b, c)) {
				n++
			}
		}
		return in.intConst(int64(n))
	}
	I["internal/bytealg.Count"] = func(in *Interp, fr *frame, a []Value) Value {
		n := 0
		c := a[1].(*Term)
		for _, b := range in.sliceBytesOrNil(a[0].(Slice)) {
			if in.Branch(in.ts.Eq(b, c)) {
				n++
			}
		}
		return in.intConst(int64(n))
	}
	I["internal/bytealg.IndexString"] = func(in *Interp, fr *frame, a []Value) Value {
		return in.intConst(int64(in.indexStr(a[0].(Str).B, a[1].(Str).B)))
	}
	I["internal/bytealg.Index"] = func(in *Interp, fr *frame, a []Value) Value {
		return in.intConst(int64(in.indexStr(in.sliceBytesOrNil(a[0].(Slice)), in.sliceBytesOrNil(a[1].(Slice)))))
	}
	I["strings.Index"] = I["internal/bytealg.IndexString"]
	I["strings.IndexByte"] = I["internal/bytealg.IndexByteString"]
	I["bytes.IndexByte"] = I["internal/bytealg.IndexByte"]
	I["internal/bytealg.Compare"] = func(in *Interp, fr *frame, a []Value) Value {
		x, y := Str{in.sliceBytesOrNil(a[0].(Slice))}, Str{in.sliceBytesOrNil(a[1].(Slice))}
		if in.Branch(in.strEq(x, y)) {
			return in.intConst(0)
		}
		if in.Branch(in.strLess(x, y)) {
			return in.intConst(-1)
		}
		return in.intConst(1)
	}
	I["internal/bytealg.MakeNoZero"] = func(in *Interp, fr *frame, a []Value) Value {
		n := in.concInt(a[0])
		return Slice{Obj: in.newArray(types.Typ[types.Byte], n), Len: n, Cap: n}
	}
	I["internal/abi.NoEscape"] = func(in *Interp, fr *frame, a []Value) Value { return a[0] }
	I["internal/abi.Escape"] = func(in *Interp, fr *frame, a []Value) Value { return a[0] }
	I["strings.(*Builder).copyCheck"] = nop
	I["(*strings.Builder).copyCheck"] = nop
	I["runtime.KeepAlive"] = nop
	I["runtime.SetFinalizer"] = nop
	I["runtime.Gosched"] = nop
	// unicode/utf8 scanning loops advance by a data-dependent size; executed from SSA the index
	// becomes symbolic. They are re-expressed over the real DecodeRuneInString (concrete size per path).
	runeScan := func(in *Interp, b []*Term, fr *frame) (count int, valid *Term) {
		in.convFrame = fr
		valid = in.ts.True
		for pos := 0; pos < len(b); count++ {
			r, size := in.decodeRuneSym(b[pos:])
			if size == 1 {
				valid = in.ts.And(valid, in.ts.Not(in.ts.Eq(r, in.ts.Const(32, 0xFFFD))))
			}
			pos += size
		}
		return
	}
	I["unicode/utf8.RuneCountInString"] = func(in *Interp, fr *frame, a []Value) Value {
		n, _ := runeScan(in, a[0].(Str).B, fr)
		return in.intConst(int64(n))
	}
	I["unicode/utf8.RuneCount"] = func(in *Interp, fr *frame, a []Value) Value {
		n, _ := runeScan(in, in.sliceBytesOrNil(a[0].(Slice)), fr)
		return in.intConst(int64(n))
	}
	I["unicode/utf8.ValidString"] = func(in *Interp, fr *frame, a []Value) Value {
		_, v := runeScan(in, a[0].(Str).B, fr)
		return v
	}
	I["unicode/utf8.Valid"] = func(in *Interp, fr *frame, a []Value) Value {
		_, v := runeScan(in, in.sliceBytesOrNil(a[0].(Slice)), fr)
		return v
	}
	// the number of usable CPUs is a property of the machine the agent runs on: arbitrary in 1..256,
	// fixed for the run. Natively the replay sets GOMAXPROCS to the counterexample's value.
	envCPUs := func(label string, slot func(e *envState) **Term) Intrinsic {
		return func(in *Interp, fr *frame, a []Value) Value {
			p := slot(in.env)
			if *p == nil {
				ts := in.ts
				t := in.fresh(label, BV(64))
				in.nondet = append(in.nondet, NondetVar{label, label, []*Term{t}})
				in.model[t.ID] = 16
				in.assume(ts.And(ts.Sle(ts.Const(64, 1), t), ts.Sle(t, ts.Const(64, 256))))
				in.ts.Ranges[t.ID] = [2]uint64{1, 256}
				*p = t
			}
			return *p
		}
	}
	I["runtime.GOMAXPROCS"] = envCPUs("gomaxprocs", func(e *envState) **Term { return &e.gomaxprocs })
	I["runtime.NumCPU"] = envCPUs("numcpu", func(e *envState) **Term { return &e.numcpu })
	I["internal/race.Acquire"] = nop
	I["internal/race.Release"] = nop
	I["internal/race.ReleaseMerge"] = nop
	I["internal/race.Disable"] = nop
	I["internal/race.Enable"] = nop
	I["internal/race.ReadRange"] = nop
	I["internal/race.WriteRange"] = nop
	I["internal/godebug.New"] = func(in *Interp, fr *frame, a []Value) Value {
		return Ptr{Obj: &Obj{Slots: []Value{nil}, Tag: "godebug"}}
	}
	I["(*internal/godebug.Setting).Value"] = func(in *Interp, fr *frame, a []Value) Value { return Str{} }
	I["(*internal/godebug.Setting).IncNonDefault"] = nop
	I["crypto/subtle.ConstantTimeCompare"] = func(in *Interp, fr *frame, a []Value) Value {
		x, y := in.sliceBytesOrNil(a[0].(Slice)), in.sliceBytesOrNil(a[1].(Slice))
		if len(x) != len(y) {
			return in.intConst(0)
		}
		eq := in.strEq(Str{x}, Str{y})
		return in.ts.Ite(eq, in.intConst(1), in.intConst(0))
	}
	// sync primitives: single baton holder, so locks are no-ops (deadlocks on mutexes are out of scope)
	for _, m := range []string{"(*sync.Mutex).Lock", "(*sync.Mutex).Unlock", "(*sync.RWMutex).Lock", "(*sync.RWMutex).Unlock",
		"(*sync.RWMutex).RLock", "(*sync.RWMutex).RUnlock"} {
		I[m] = nop
	}
	I["(*sync.Mutex).TryLock"] = func(in *Interp, fr *frame, a []Value) Value { return in.ts.True }
	I["(*sync.Once).Do"] = func(in *Interp, fr *frame, a []Value) Value {
		p := a[0].(Ptr)
		if p.Obj.Tag == nil {
			p.Obj.Tag = "done"
			if p.Obj.Frozen && in.undoOn {
				// once objects in frozen heap: remember to reset
				in.onceUndo = append(in.onceUndo, p.Obj)
			}
			in.callValue(a[1], nil, fr)
		}
		return nil
	}
	// sync.Pool: pools of the code under test keep what was put (Get may hit - returning the
	// object as it was put - or miss: a choice); pools of the standard library always miss.
	poolOfRepo := func(in *Interp, o *Obj) bool {
		if in.env.poolRepo == nil {
			in.env.poolRepo = map[*Obj]bool{}
		}
		if v, ok := in.env.poolRepo[o]; ok {
			return v
		}
		res := false
		for g, go_ := range in.globals {
			if go_ == o && g.Pkg != nil && strings.HasPrefix(g.Pkg.Pkg.Path(), in.P.RepoMod) {
				res = true
			}
		}
		in.env.poolRepo[o] = res
		return res
	}
	I["(*sync.Pool).Get"] = func(in *Interp, fr *frame, a []Value) Value {
		p := a[0].(Ptr)
		key := poolKey{p.Obj, p.Off}
		if items := in.env.pools[key]; len(items) > 0 && poolOfRepo(in, p.Obj) {
			if in.Choose(2) == 0 { // hit (what happens natively in a quiet process)
				v := items[len(items)-1]
				in.env.pools[key] = items[:len(items)-1]
				return v
			}
		}
		st := under(p.Obj.Typ).(*types.Struct)
		for i := 0; i < st.NumFields(); i++ {
			if st.Field(i).Name() == "New" {
				f := p.Obj.Slots[p.Off+in.fieldOffset(st, i)]
				if c, ok := f.(*Closure); ok && c != nil {
					return in.callValue(c, nil, fr)
				}
			}
		}
		return Iface{}
	}
	I["(*sync.Pool).Put"] = func(in *Interp, fr *frame, a []Value) Value {
		p := a[0].(Ptr)
		if poolOfRepo(in, p.Obj) {
			if in.env.pools == nil {
				in.env.pools = map[poolKey][]Value{}
			}
			key := poolKey{p.Obj, p.Off}
			in.env.pools[key] = append(in.env.pools[key], a[1])
		}
		return nil
	}
	I["math.Round"] = func(in *Interp, fr *frame, a []Value) Value {
		switch x := a[0].(type) {
		case float64:
			return math.Round(x)
		case *Term:
			return in.ts.FPRound(x)
		}
		panic(engineErr("math.Round on %T", a[0]))
	}
	I["math.Float64bits"] = func(in *Interp, fr *frame, a []Value) Value {
		return in.ts.Const(64, math.Float64bits(a[0].(float64)))
	}
	I["math.Float64frombits"] = func(in *Interp, fr *frame, a []Value) Value {
		t := a[0].(*Term)
		if !t.IsConst() {
			return in.ts.FPFromBits(t)
		}
		return math.Float64frombits(t.Val)
	}
	I["errors.Is"] = func(in *Interp, fr *frame, a []Value) Value {
		// identity / Unwrap chain on concrete error values
		e, target := a[0].(Iface), a[1].(Iface)
		for depth := 0; depth < 10 && e.T != nil; depth++ {
			if in.Branch(in.equalIfaceSafe(e, target)) {
				return in.ts.True
			}
			ms := in.P.Prog.MethodSets.MethodSet(e.T)
			var next Iface
			found := false
			for i := 0; i < ms.Len(); i++ {
				if ms.At(i).Obj().Name() == "Unwrap" {
					fn := in.P.Prog.MethodValue(ms.At(i))
					r := in.call(fn, []Value{e.V}, nil, fr)
					if ni, ok := r.(Iface); ok {
						next = ni
						found = true
					}
				}
			}
			if !found {
				break
			}
			e = next
		}
		return in.ts.False
	}
}

func (in *Interp) equalIfaceSafe(a, b Iface) *Term {
	if a.T == nil || b.T == nil {
		return in.ts.Bool(a.T == nil && b.T == nil)
	}
	if !types.Identical(a.T, b.T) {
		return in.ts.False
	}
	if !types.Comparable(a.T) {
		return in.ts.False
	}
	return in.equal(a.T, a.V, b.V)
}

func labelOf(v Value) string {
	s, _ := v.(Str).Concrete()
	return s
}

func (in *Interp) sliceBytesOrNil(s Slice) []*Term {
	if s.Obj == nil || s.Len == 0 {
		return nil
	}
	return in.sliceBytes(s)
}

// indexByte returns the first position of c in b (forking per position), -1 if absent.
func (in *Interp) indexByte(b []*Term, c *Term) int {
	for i, x := range b {
		if in.Branch(in.ts.Eq(x, c)) {
			return i
		}
	}
	return -1
}

func (in *Interp) indexStr(s, sep []*Term) int {
	n := len(sep)
	if n == 0 {
		return 0
	}
	for i := 0; i+n <= len(s); i++ {
		if in.Branch(in.strEq(Str{s[i : i+n]}, Str{sep})) {
			return i
		}
	}
	return -1
}

// newError builds an *errors.errorString value.
func (in *Interp) newError(msg Str) Value {
	pkg := in.P.Pkgs["errors"]
	if pkg == nil {
		panic(engineErr("errors package not loaded"))
	}
	et := pkg.Type("errorString").Type()
	o := in.newObj(et)
	o.Slots[0] = msg
	return Iface{T: types.NewPointer(et), V: Ptr{Obj: o}}
}

func (in *Interp) newErrorf(f string, a ...interface{}) Value {
	return in.newError(in.strConst(fmt.Sprintf(f, a...)))
}

// errorString renders an error interface value by calling its Error method.
func (in *Interp) errorString(fr *frame, e Iface) Str {
	if e.T == nil {
		return in.strConst("<nil>")
	}
	ms := in.P.Prog.MethodSets.MethodSet(e.T)
	for i := 0; i < ms.Len(); i++ {
		if ms.At(i).Obj().Name() == "Error" {
			fn := in.P.Prog.MethodValue(ms.At(i))
			return in.call(fn, []Value{e.V}, nil, fr).(Str)
		}
	}
	return in.strConst("?")
}

func (in *Interp) hasMethod(t types.Type, name string) bool {
	if t == nil || t == runtimeErrorType {
		return false
	}
	ms := in.P.Prog.MethodSets.MethodSet(t)
	for i := 0; i < ms.Len(); i++ {
		if ms.At(i).Obj().Name() == name {
			sig := ms.At(i).Obj().Type().(*types.Signature)
			if sig.Params().Len() == 0 && sig.Results().Len() == 1 {
				if b, ok := sig.Results().At(0).Type().(*types.Basic); ok && b.Kind() == types.String {
					return true
				}
			}
		}
	}
	return false
}

func (in *Interp) callStringMethod(fr *frame, v Iface, name string) Str {
	ms := in.P.Prog.MethodSets.MethodSet(v.T)
	for i := 0; i < ms.Len(); i++ {
		if ms.At(i).Obj().Name() == name {
			fn := in.P.Prog.MethodValue(ms.At(i))
			return in.call(fn, []Value{v.V}, nil, fr).(Str)
		}
	}
	return Str{}
}

// decimal renders a (possibly symbolic) integer in base 10.
func (in *Interp) decimal(t *Term, signed bool) Str {
	ts := in.ts
	if t.IsConst() {
		if signed {
			return in.strConst(strconv.FormatInt(sext64(t.Val, t.Sort.W), 10))
		}
		return in.strConst(strconv.FormatUint(t.Val, 10))
	}
	v := ts.Resize(t, 64, signed)
	// constant-plus-small-offset values (e.g. the clock): the high digits are concrete and only
	// the low k digits are symbolic
	if cpart, rest, hiR, ok := in.splitConstOffset(v); ok {
		k := 1
		p10 := uint64(10)
		for p10 <= hiR {
			k++
			p10 *= 10
		}
		if k <= 9 && cpart%p10 == 0 && cpart >= p10 {
			high := strconv.FormatUint(cpart/p10, 10)
			w := 4*k + 4
			low := ts.Extract(rest, w-1, 0)
			ds := make([]*Term, k)
			acc := ts.Const(w, 0)
			var cs []*Term
			hint := ""
			if in.compsValid(rest) {
				hint = fmt.Sprintf("%0*d", k, in.evalT(rest))
				if len(hint) != k {
					hint = ""
				}
			}
			for i := 0; i < k; i++ {
				d := in.fresh("dig", BV(8))
				delete(in.ts.Ranges, d.ID) // constraints below must not be folded away by an earlier path's range fact
				if hint != "" {
					in.model[d.ID] = uint64(hint[i])
				}
				ds[i] = d
				cs = append(cs, ts.Ule(in.byteConst('0'), d), ts.Ule(d, in.byteConst('9')))
				acc = ts.Add(ts.Mul(acc, ts.Const(w, 10)), ts.Zext(ts.Sub(d, in.byteConst('0')), w))
			}
			cs = append(cs, ts.Eq(acc, low))
			in.assume(ts.And(cs...))
			for _, d := range ds {
				in.ts.Ranges[d.ID] = [2]uint64{'0', '9'} // now implied by the path condition
			}
			all := append(append([]*Term(nil), in.strConst(high).B...), ds...)
			in.decProv[provKey(all)] = v
			return Str{all}
		}
	}
	if signed {
		if in.Branch(ts.Slt(v, ts.Const(64, 0))) {
			panic(engineErr("decimal rendering of negative symbolic integer"))
		}
	}
	// digit count is a shape: fork over it
	nd := 1
	pow := uint64(10)
	for nd < 20 {
		if in.Branch(ts.Ult(v, ts.Const(64, pow))) {
			break
		}
		nd++
		if nd == 20 {
			break
		}
		pow *= 10
	}
	// relational encoding: fresh digits d_i with Horner(d) = v, in just enough bits
	w := 64
	if nd <= 18 {
		w = 4*nd + 4 // 10^nd < 2^(4nd); intermediate Horner values stay below 10^nd
		if w > 64 {
			w = 64
		}
	}
	ds := make([]*Term, nd)
	acc := ts.Const(w, 0)
	var cs []*Term
	// model hint: the digits of v's current model value keep the cached model valid
	hint := ""
	if in.compsValid(v) {
		hint = strconv.FormatUint(in.evalT(v), 10)
		if len(hint) != nd {
			hint = ""
		}
	}
	for i := 0; i < nd; i++ {
		d := in.fresh("dig", BV(8))
		delete(in.ts.Ranges, d.ID)
		if hint != "" {
			in.model[d.ID] = uint64(hint[i])
		}
		ds[i] = d
		cs = append(cs, ts.Ule(in.byteConst('0'), d), ts.Ule(d, in.byteConst('9')))
		acc = ts.Add(ts.Mul(acc, ts.Const(w, 10)), ts.Zext(ts.Sub(d, in.byteConst('0')), w))
	}
	if nd > 1 {
		cs = append(cs, ts.Not(ts.Eq(ds[0], in.byteConst('0'))))
	}
	cs = append(cs, ts.Eq(ts.Zext(acc, 64), v))
	in.assume(ts.And(cs...))
	for _, d := range ds {
		in.ts.Ranges[d.ID] = [2]uint64{'0', '9'}
	}
	in.decProv[provKey(ds)] = v
	return Str{ds}
}

// splitConstOffset writes v as cpart + rest with rest in [0,hiR] by interval reasoning over
// additions of constants and range-annotated variables.
func (in *Interp) splitConstOffset(v *Term) (cpart uint64, rest *Term, hiR uint64, ok bool) {
	ts := in.ts
	var terms []*Term
	var walk func(t *Term) bool
	walk = func(t *Term) bool {
		switch {
		case t.IsConst():
			cpart += t.Val
			return true
		case t.Op == OpBvAdd:
			return walk(t.Args[0]) && walk(t.Args[1])
		}
		x := t
		for x.Op == OpZext {
			x = x.Args[0]
		}
		r, has := ts.Ranges[x.ID]
		if !has || x.Op != OpVar {
			return false
		}
		hiR += r[1]
		terms = append(terms, t)
		return true
	}
	if v.Sort.W != 64 || v.IsConst() || !walk(v) || len(terms) == 0 || hiR > 100000000 {
		return 0, nil, 0, false
	}
	rest = terms[0]
	for _, t := range terms[1:] {
		rest = ts.Add(rest, t)
	}
	return cpart, rest, hiR, true
}

func provKey(b []*Term) string {
	var sb strings.Builder
	for _, t := range b {
		sb.WriteString(strconv.Itoa(t.ID))
		sb.WriteByte(',')
	}
	return sb.String()
}

func (in *Interp) formatArg(fr *frame, verb byte, av Value) Str {
	a, ok := av.(Iface)
	if !ok {
		return in.strConst("?")
	}
	if a.T == nil {
		return in.strConst("<nil>")
	}
	if verb == 'T' {
		return in.strConst(a.T.String())
	}
	if verb == 'v' || verb == 's' || verb == 'q' || verb == 'w' {
		if a.T != runtimeErrorType && in.hasMethod(a.T, "Error") {
			s := in.callStringMethod(fr, a, "Error")
			if verb == 'q' {
				return in.quote(s)
			}
			return s
		}
		if in.hasMethod(a.T, "String") {
			s := in.callStringMethod(fr, a, "String")
			if verb == 'q' {
				return in.quote(s)
			}
			return s
		}
	}
	switch v := a.V.(type) {
	case Str:
		switch verb {
		case 'q':
			return in.quote(v)
		case 'x':
			if cs, ok := v.Concrete(); ok {
				return in.strConst(fmt.Sprintf("%x", cs))
			}
		}
		return v
	case *Term:
		if v.Sort.K == SBool {
			if in.Branch(v) {
				return in.strConst("true")
			}
			return in.strConst("false")
		}
		if v.Sort.K == SFP64 {
			return in.strConst("<float>")
		}
		signed := in.isSigned(a.T)
		switch verb {
		case 'd', 'v', 's':
			return in.decimal(v, signed)
		case 'x', 'X', 'o', 'b', 'c', 'q', 'U':
			if v.IsConst() {
				var n interface{} = v.Val
				if signed {
					n = sext64(v.Val, v.Sort.W)
				}
				return in.strConst(fmt.Sprintf("%"+string(verb), n))
			}
			if verb == 'c' {
				return Str{[]*Term{in.ts.Resize(v, 8, false)}}
			}
		}
		return in.strConst("<int>")
	case float64:
		return in.strConst(fmt.Sprintf("%"+string(verb), v))
	case Slice:
		if verb == 's' || verb == 'v' || verb == 'x' || verb == 'q' {
			if sl, ok := under(a.T).(*types.Slice); ok {
				if b, ok := under(sl.Elem()).(*types.Basic); ok && b.Kind() == types.Uint8 {
					s := Str{in.sliceBytesOrNil(v)}
					if verb == 's' {
						return s
					}
					if cs, ok := s.Concrete(); ok {
						return in.strConst(fmt.Sprintf("%"+string(verb), []byte(cs)))
					}
				}
			}
		}
		return in.strConst("[...]")
	case Ptr:
		if v.Obj == nil {
			return in.strConst("<nil>")
		}
		return in.strConst("0xc000000000")
	}
	return in.strConst("?")
}

func (in *Interp) quote(s Str) Str {
	if cs, ok := s.Concrete(); ok {
		return in.strConst(strconv.Quote(cs))
	}
	// approximation: symbolic content is inserted verbatim between quotes (messages only)
	out := []*Term{in.byteConst('"')}
	out = append(out, s.B...)
	out = append(out, in.byteConst('"'))
	return Str{out}
}

// sprintf implements the subset of fmt formatting used by the code under test.
func (in *Interp) sprintf(fr *frame, format Str, args Slice) Str {
	f, ok := format.Concrete()
	if !ok {
		panic(engineErr("symbolic format string"))
	}
	var out []*Term
	argi := 0
	for i := 0; i < len(f); i++ {
		c := f[i]
		if c != '%' {
			out = append(out, in.byteConst(c))
			continue
		}
		i++
		if i >= len(f) {
			out = append(out, in.strConst("%!(NOVERB)").B...)
			break
		}
		// flags, width, precision
		start := i
		for i < len(f) && strings.IndexByte("+-# 0123456789.", f[i]) >= 0 {
			i++
		}
		if i >= len(f) {
			break
		}
		spec := f[start:i]
		verb := f[i]
		if verb == '%' {
			out = append(out, in.byteConst('%'))
			continue
		}
		if argi >= args.Len {
			out = append(out, in.strConst("%!"+string(verb)+"(MISSING)").B...)
			continue
		}
		av := args.Obj.Slots[args.Off+argi]
		argi++
		s := in.formatArg(fr, verb, av)
		if spec != "" {
			// width/flags only applied to concrete renderings of basic values
			if cs, ok := s.Concrete(); ok {
				if a, ok := av.(Iface); ok {
					switch v := a.V.(type) {
					case *Term:
						if v.IsConst() && v.Sort.K == SBV {
							var n interface{} = v.Val
							if in.isSigned(a.T) {
								n = sext64(v.Val, v.Sort.W)
							}
							cs = fmt.Sprintf("%"+spec+string(verb), n)
						}
					case float64:
						cs = fmt.Sprintf("%"+spec+string(verb), v)
					case Str:
						cs = fmt.Sprintf("%"+spec+string(verb), cs)
					}
				}
				s = in.strConst(cs)
			}
		}
		out = append(out, s.B...)
	}
	return Str{out}
}
