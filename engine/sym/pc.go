package sym

// Path condition with constraint independence (KLEE-style slicing) and per-component cached
// models. Nothing is asserted on the solver: every query is a check-sat-assuming over the
// conjuncts that share variables (transitively) with the queried condition.

type pcConj struct {
	t *Term
	v int // id of one variable occurring in t
}

func (in *Interp) resetPC() {
	in.pc = in.pc[:0]
	in.pcSet = map[int]bool{}
	in.ufParent = map[int]int{}
	in.compInvalid = map[int]bool{}
	in.model = map[int]uint64{}
	in.evalMemo = map[int]uint64{}
	in.varByID = map[int]*Term{}
}

func (in *Interp) find(v int) int {
	p, ok := in.ufParent[v]
	if !ok || p == v {
		return v
	}
	r := in.find(p)
	in.ufParent[v] = r
	return r
}

// varsOf returns the variables occurring in t (memoised per term).
func (in *Interp) varsOf(t *Term) []*Term {
	if t.Op == OpConst {
		return nil
	}
	if vs, ok := in.varsMemo[t.ID]; ok {
		return vs
	}
	var out []*Term
	seen := map[int]bool{}
	st := []*Term{t}
	for len(st) > 0 {
		x := st[len(st)-1]
		st = st[:len(st)-1]
		if x.Op == OpConst || seen[x.ID] {
			continue
		}
		seen[x.ID] = true
		if x.Op == OpVar {
			out = append(out, x)
			continue
		}
		st = append(st, x.Args...)
	}
	in.varsMemo[t.ID] = out
	return out
}

func (in *Interp) rootsOf(t *Term) map[int]bool {
	rs := map[int]bool{}
	for _, v := range in.varsOf(t) {
		rs[in.find(v.ID)] = true
	}
	return rs
}

// relevant returns the PC conjuncts in the components touched by t.
func (in *Interp) relevant(t *Term) []*Term {
	rs := in.rootsOf(t)
	var out []*Term
	for _, c := range in.pc {
		if rs[in.find(c.v)] {
			out = append(out, c.t)
		}
	}
	return out
}

func (in *Interp) compsValid(t *Term) bool {
	for r := range in.rootsOf(t) {
		if in.compInvalid[r] {
			return false
		}
	}
	return true
}

func (in *Interp) assume(c *Term) {
	if c.IsTrue() {
		return
	}
	if c.Op == OpAnd {
		for _, a := range c.Args {
			in.assume(a)
		}
		return
	}
	if in.pcSet[c.ID] {
		return
	}
	vs := in.varsOf(c)
	if len(vs) == 0 {
		if c.IsFalse() {
			panic(pathEnd{"infeasible", "false assumed"})
		}
		return
	}
	valid := true
	root := in.find(vs[0].ID)
	for _, v := range vs {
		in.varByID[v.ID] = v
		r := in.find(v.ID)
		if in.compInvalid[r] {
			valid = false
		}
		if r != root {
			in.ufParent[r] = root
			delete(in.compInvalid, r)
		}
	}
	if valid && !in.evalBool(c) {
		valid = false
	}
	if !valid {
		in.compInvalid[root] = true
	} else {
		delete(in.compInvalid, root)
	}
	in.pc = append(in.pc, pcConj{c, vs[0].ID})
	in.pcSet[c.ID] = true
}

func (in *Interp) checkWith(c *Term) SatResult {
	lits := append(in.relevant(c), c)
	return in.sol.CheckAssuming(lits)
}

func (in *Interp) feasible(c *Term) bool {
	if c.IsConst() {
		return c.IsTrue()
	}
	if in.pcSet[c.ID] {
		return true
	}
	if in.pcSet[in.ts.Not(c).ID] {
		return false
	}
	switch in.checkWith(c) {
	case Sat:
		return true
	case Unsat:
		return false
	}
	in.incomplete("solver unknown at branch")
	return true
}

// fetchFor reads the model values of the variables in the components touched by the given
// terms (call right after a Sat answer).
func (in *Interp) fetchFor(ts ...*Term) bool {
	rs := map[int]bool{}
	var vars []*Term
	seen := map[int]bool{}
	add := func(v *Term) {
		if !seen[v.ID] {
			seen[v.ID] = true
			vars = append(vars, v)
		}
	}
	for _, t := range ts {
		for _, v := range in.varsOf(t) {
			rs[in.find(v.ID)] = true
			add(v)
		}
	}
	for _, c := range in.pc {
		if rs[in.find(c.v)] {
			for _, v := range in.varsOf(c.t) {
				add(v)
			}
		}
	}
	if len(vars) == 0 {
		return true
	}
	vals, err := in.sol.GetValues(vars)
	if err != nil {
		in.incomplete("get-value failed: " + err.Error())
		return false
	}
	for i, v := range vars {
		in.model[v.ID] = vals[i]
	}
	in.evalMemo = map[int]uint64{}
	for r := range rs {
		delete(in.compInvalid, r) // the model came from a query containing every conjunct of these components
	}
	return true
}

// ensureModelFor makes the cached model valid for every component touched by t.
// Returns false if the path condition is unsatisfiable.
func (in *Interp) ensureModelFor(t *Term) bool {
	for r := range in.rootsOf(t) {
		if !in.compInvalid[r] {
			continue
		}
		var lits []*Term
		for _, c := range in.pc {
			if in.find(c.v) == r {
				lits = append(lits, c.t)
			}
		}
		switch in.sol.CheckAssuming(lits) {
		case Sat:
			if len(lits) > 0 && in.fetchFor(lits[0]) {
				delete(in.compInvalid, r)
			}
		case Unsat:
			return false
		default:
			in.incomplete("solver unknown at model refresh")
		}
	}
	return true
}

// Branch decides a symbolic condition, forking if both sides are feasible.
func (in *Interp) Branch(c *Term) bool {
	if c.IsConst() {
		return c.Val == 1
	}
	if in.di < len(in.prefix) {
		d := in.prefix[in.di]
		if d.K != 'B' {
			panic(engineErr("non-deterministic replay: expected %c got branch", d.K))
		}
		in.di++
		in.taken = append(in.taken, d)
		if d.V == 1 {
			in.assume(c)
			return true
		}
		in.assume(in.ts.Not(c))
		return false
	}
	nc := in.ts.Not(c)
	if in.pcSet[c.ID] {
		in.record('B', 1)
		in.di++
		return true
	}
	if in.pcSet[nc.ID] {
		in.record('B', 0)
		in.di++
		return false
	}
	if !in.ensureModelFor(c) {
		panic(pathEnd{"infeasible", "branch"})
	}
	if in.compsValid(c) {
		// the cached model decides one side for free; one query for the other side
		if in.evalBool(c) {
			if in.feasible(nc) {
				in.enqueue(Decision{'B', 0})
			}
			in.record('B', 1)
			in.di++
			in.assume(c)
			return true
		}
		if in.feasible(c) {
			in.enqueue(Decision{'B', 1})
		}
		in.record('B', 0)
		in.di++
		in.assume(nc)
		return false
	}
	if !in.feasible(c) {
		in.record('B', 0)
		in.di++
		in.assume(nc)
		return false
	}
	if !in.feasible(nc) {
		in.record('B', 1)
		in.di++
		in.assume(c)
		return true
	}
	in.enqueue(Decision{'B', 0})
	in.record('B', 1)
	in.di++
	in.assume(c)
	return true
}

// Concretize forks over the feasible values of t and returns the chosen one (as signed 64-bit).
func (in *Interp) Concretize(t *Term) int64 {
	w := t.Sort.W
	if t.IsConst() {
		return sext64(t.Val, w)
	}
	for {
		if in.di < len(in.prefix) {
			d := in.prefix[in.di]
			in.di++
			in.taken = append(in.taken, d)
			switch d.K {
			case 'V':
				in.assume(in.ts.Eq(t, in.ts.Const(w, uint64(d.V))))
				return d.V
			case 'N':
				in.assume(in.ts.Not(in.ts.Eq(t, in.ts.Const(w, uint64(d.V)))))
				continue
			}
			panic(engineErr("non-deterministic replay: expected value decision got %c", d.K))
		}
		if !in.ensureModelFor(t) {
			panic(pathEnd{"infeasible", "concretize"})
		}
		var v int64
		if in.compsValid(t) {
			v = sext64(in.evalT(t), w)
		} else {
			if in.sol.CheckAssuming(in.relevant(t)) != Sat {
				in.incomplete("solver unknown at concretize")
				panic(pathEnd{"engine", "solver unknown at concretize"})
			}
			vals, err := in.sol.GetValues([]*Term{t})
			if err != nil {
				panic(engineErr("get-value: %v", err))
			}
			v = sext64(vals[0], w)
		}
		eq := in.ts.Eq(t, in.ts.Const(w, uint64(v)))
		if in.feasible(in.ts.Not(eq)) {
			in.enqueue(Decision{'N', v})
		}
		in.record('V', v)
		in.di++
		in.assume(eq)
		return v
	}
}

// modelValues returns a full assignment of the nondet inputs consistent with the path condition
// (and with whatever model was fetched last for the components it covers).
func (in *Interp) modelValues() []NondetValue {
	for _, nv := range in.nondet {
		for _, t := range nv.Terms {
			if !t.IsConst() && !in.compsValid(t) {
				in.ensureModelFor(t)
			}
		}
	}
	out := make([]NondetValue, 0, len(in.nondet))
	for _, nv := range in.nondet {
		switch nv.Kind {
		case "byte", "u64", "clock", "gomaxprocs", "numcpu":
			out = append(out, NondetValue{nv.Label, nv.Kind, in.evalT(nv.Terms[0])})
		case "int", "choice":
			out = append(out, NondetValue{nv.Label, nv.Kind, int64(in.evalT(nv.Terms[0]))})
		case "bool":
			out = append(out, NondetValue{nv.Label, nv.Kind, in.evalT(nv.Terms[0]) == 1})
		case "str", "bytes":
			b := make([]int, len(nv.Terms))
			for i, t := range nv.Terms {
				b[i] = int(in.evalT(t))
			}
			out = append(out, NondetValue{nv.Label, nv.Kind, b})
		}
	}
	return out
}

// doAssert checks PC ∧ ¬c.
func (in *Interp) doAssert(id string, c *Term, msg string) {
	if c.IsTrue() {
		in.res.Folded++
		return
	}
	nc := in.ts.Not(c)
	violated := false
	if in.pcSet[c.ID] {
		in.res.Folded++
		return
	}
	in.ensureModelFor(c)
	if in.compsValid(c) && !in.evalBool(c) {
		violated = true // the cached model of PC already falsifies c
	} else {
		switch in.checkWith(nc) {
		case Unsat:
			in.res.Asserts++
		case Sat:
			violated = true
			in.fetchFor(nc)
		default:
			in.incomplete("solver unknown at assert " + id)
		}
	}
	if violated && in.env != nil && len(in.env.ticks) > 0 {
		// prefer a counterexample in which consecutive clock readings are not spread by the model's
		// free ticks (the native replay cannot steer them; explicit sleeps it can)
		pref := nc
		for _, t := range in.env.ticks {
			pref = in.ts.And(pref, in.ts.Eq(t, in.ts.Const(64, 0)))
		}
		if in.checkWith(pref) == Sat {
			in.fetchFor(pref)
		}
	}
	if violated {
		v := Violation{Unit: in.unit, AssertID: id, Msg: msg, Nondet: in.modelValues(), Decs: append([]Decision(nil), in.taken...)}
		if in.env != nil {
			v.Extra = in.env.snapshotExtra()
		}
		in.res.Violations = append(in.res.Violations, v)
		// continue on the satisfying side only
		for r := range in.rootsOf(c) {
			in.compInvalid[r] = true
		}
		if c.IsFalse() || !in.feasible(c) {
			panic(pathEnd{"assume", "after violation"})
		}
		in.assume(c)
	}
}
