package sym

import (
	"go/types"
	"strconv"
)

// strconv.ParseInt / ParseUint as semantic intrinsics (DESIGN A.4/A.5): one fork on
// "syntactically valid", the value as a Horner term, and a provenance shortcut for digit
// strings that were rendered from a symbolic integer by the engine's own decimal().

func (in *Interp) numError(fn string, s Str, errVar string) Iface {
	t := in.namedType("strconv", "NumError")
	o := in.newObj(t)
	o.Slots[0] = in.strConst(fn)
	o.Slots[1] = s
	g := in.P.Pkgs["strconv"].Var(errVar)
	o.Slots[2] = in.load(Ptr{Obj: in.global(g)}, g.Type().(*types.Pointer).Elem())
	return Iface{T: types.NewPointer(t), V: Ptr{Obj: o}}
}

// parseDigits handles base-10 digit strings; signedOK allows a leading sign.
// Returns (magnitude term, negative, ok, rangeErr).
func (in *Interp) parseDecimal(s Str, signedOK bool, fn string, bits int) (val *Term, err Iface) {
	ts := in.ts
	if cs, ok := s.Concrete(); ok {
		if signedOK {
			v, e := strconv.ParseInt(cs, 10, bits)
			if e != nil {
				ne := e.(*strconv.NumError)
				if ne.Err == strconv.ErrRange {
					return ts.Const(64, uint64(v)), in.numError(fn, s, "ErrRange")
				}
				return ts.Const(64, 0), in.numError(fn, s, "ErrSyntax")
			}
			return ts.Const(64, uint64(v)), Iface{}
		}
		v, e := strconv.ParseUint(cs, 10, bits)
		if e != nil {
			ne := e.(*strconv.NumError)
			if ne.Err == strconv.ErrRange {
				return ts.Const(64, v), in.numError(fn, s, "ErrRange")
			}
			return ts.Const(64, 0), in.numError(fn, s, "ErrSyntax")
		}
		return ts.Const(64, v), Iface{}
	}
	if v, ok := in.decProv[provKey(s.B)]; ok && bits == 64 {
		// rendered by decimal() from v (non-negative, fits): parse gives v back
		if signedOK {
			if in.Branch(ts.Slt(v, ts.Const(64, 0))) {
				return ts.Const(64, 1<<63-1), in.numError(fn, s, "ErrRange")
			}
		}
		return v, Iface{}
	}
	b := s.B
	if len(b) == 0 {
		return ts.Const(64, 0), in.numError(fn, s, "ErrSyntax")
	}
	neg := false
	if signedOK {
		if in.Branch(ts.Eq(b[0], in.byteConst('-'))) {
			neg = true
			b = b[1:]
		} else if in.Branch(ts.Eq(b[0], in.byteConst('+'))) {
			b = b[1:]
		}
	}
	if len(b) == 0 {
		return ts.Const(64, 0), in.numError(fn, s, "ErrSyntax")
	}
	// leading zeros do not change the value
	for len(b) > 1 && b[0].IsConst() && b[0].Val == '0' {
		b = b[1:]
	}
	if v, ok := in.decProv[provKey(b)]; ok && bits == 64 && !neg {
		return v, Iface{}
	}
	var cs []*Term
	for _, d := range b {
		cs = append(cs, ts.Ule(in.byteConst('0'), d), ts.Ule(d, in.byteConst('9')))
	}
	if !in.Branch(ts.And(cs...)) {
		return ts.Const(64, 0), in.numError(fn, s, "ErrSyntax")
	}
	if len(b) > 18 {
		// long digit strings: concretise (range errors possible)
		buf := make([]byte, len(b))
		for i, d := range b {
			buf[i] = byte(in.Concretize(d))
		}
		pre := ""
		if neg {
			pre = "-"
		}
		return in.parseDecimal(in.strConst(pre+string(buf)), signedOK, fn, bits)
	}
	acc := ts.Const(64, 0)
	for _, d := range b {
		acc = ts.Add(ts.Mul(acc, ts.Const(64, 10)), ts.Zext(ts.Sub(d, in.byteConst('0')), 64))
	}
	if bits != 64 && bits != 0 {
		panic(engineErr("parse with bitSize %d on symbolic digits", bits))
	}
	if neg {
		acc = ts.Neg(acc)
	}
	return acc, Iface{}
}

func registerStrconv(p *Program) {
	I := p.Intr
	I["strconv.ParseInt"] = func(in *Interp, fr *frame, a []Value) Value {
		base := in.concInt(a[1])
		bits := in.concInt(a[2])
		if bits == 0 {
			bits = 64
		}
		if base != 10 {
			cs, ok := a[0].(Str).Concrete()
			if !ok {
				panic(engineErr("ParseInt base %d on symbolic string", base))
			}
			v, e := strconv.ParseInt(cs, base, bits)
			if e != nil {
				return Tuple{in.ts.Const(64, uint64(v)), in.numError("ParseInt", a[0].(Str), "ErrSyntax")}
			}
			return Tuple{in.ts.Const(64, uint64(v)), Iface{}}
		}
		v, e := in.parseDecimal(a[0].(Str), true, "ParseInt", bits)
		return Tuple{v, e}
	}
	I["strconv.ParseUint"] = func(in *Interp, fr *frame, a []Value) Value {
		base := in.concInt(a[1])
		bits := in.concInt(a[2])
		if bits == 0 {
			bits = 64
		}
		if base != 10 {
			cs, ok := a[0].(Str).Concrete()
			if !ok {
				panic(engineErr("ParseUint base %d on symbolic string", base))
			}
			v, e := strconv.ParseUint(cs, base, bits)
			if e != nil {
				return Tuple{in.ts.Const(64, v), in.numError("ParseUint", a[0].(Str), "ErrSyntax")}
			}
			return Tuple{in.ts.Const(64, v), Iface{}}
		}
		v, e := in.parseDecimal(a[0].(Str), false, "ParseUint", bits)
		return Tuple{v, e}
	}
	I["strconv.Atoi"] = func(in *Interp, fr *frame, a []Value) Value {
		v, e := in.parseDecimal(a[0].(Str), true, "Atoi", 64)
		return Tuple{v, e}
	}
	I["strconv.Itoa"] = func(in *Interp, fr *frame, a []Value) Value { return in.decimal(a[0].(*Term), true) }
	I["strconv.FormatInt"] = func(in *Interp, fr *frame, a []Value) Value {
		if in.concInt(a[1]) != 10 {
			t := a[0].(*Term)
			if !t.IsConst() {
				panic(engineErr("FormatInt non-decimal symbolic"))
			}
			return in.strConst(strconv.FormatInt(int64(t.Val), in.concInt(a[1])))
		}
		return in.decimal(a[0].(*Term), true)
	}
	I["strconv.FormatUint"] = func(in *Interp, fr *frame, a []Value) Value {
		if in.concInt(a[1]) != 10 {
			t := a[0].(*Term)
			if !t.IsConst() {
				panic(engineErr("FormatUint non-decimal symbolic"))
			}
			return in.strConst(strconv.FormatUint(t.Val, in.concInt(a[1])))
		}
		return in.decimal(a[0].(*Term), false)
	}
}
