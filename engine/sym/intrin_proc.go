package sym

import (
	"go/types"
)

// Models for time.Timer and os/exec (hooks, C19).

type procModel struct {
	path   Str
	args   []Str
	env    []Str
	exitCh *ChanObj
	killed bool
	kind   int // 0 exits at once, 1 fails at once, 2 hangs until killed
	waited bool
}

func registerProc(p *Program) {
	I := p.Intr
	newTimer := func(in *Interp, armed bool) Ptr {
		t := in.namedType("time", "Timer")
		o := in.newObj(t)
		ch := in.makeChan(1)
		tm := &timerModel{ch: ch, armed: armed, obj: o}
		ch.timer = tm
		o.Tag = tm
		in.setField(o, t, "C", ch)
		in.env.timers = append(in.env.timers, tm)
		return Ptr{Obj: o}
	}
	I["time.NewTimer"] = func(in *Interp, fr *frame, a []Value) Value { return newTimer(in, true) }
	I["(*time.Timer).Stop"] = func(in *Interp, fr *frame, a []Value) Value {
		tm := a[0].(Ptr).Obj.Tag.(*timerModel)
		was := tm.armed
		tm.armed = false
		return in.ts.Bool(was)
	}
	I["(*time.Timer).Reset"] = func(in *Interp, fr *frame, a []Value) Value {
		tm := a[0].(Ptr).Obj.Tag.(*timerModel)
		was := tm.armed
		tm.armed = true
		tm.ch.buf = nil // Go 1.23 timers: Reset discards a stale value
		return in.ts.Bool(was)
	}
	I["time.After"] = func(in *Interp, fr *frame, a []Value) Value {
		t := newTimer(in, true)
		return t.Obj.Tag.(*timerModel).ch
	}
	// vpFireTimers: time passes: every armed timer expires (its channel gets a value); returns how many fired
	I["vp:vpFireTimers"] = func(in *Interp, fr *frame, a []Value) Value {
		n := 0
		for _, t := range in.env.timers {
			if t.armed {
				t.armed = false
				in.trySend(t.ch, in.zeroTime())
				in.env.timerFires++
				n++
			}
		}
		return in.intConst(int64(n))
	}
	I["vp:vpTimerFires"] = func(in *Interp, fr *frame, a []Value) Value { return in.intConst(int64(in.env.timerFires)) }

	// ---- os/exec ----
	I["os/exec.Command"] = func(in *Interp, fr *frame, a []Value) Value {
		t := in.namedType("os/exec", "Cmd")
		o := in.newObj(t)
		pm := &procModel{path: a[0].(Str)}
		args := a[1].(Slice)
		all := Slice{Obj: in.newArray(types.Typ[types.String], args.Len+1), Len: args.Len + 1, Cap: args.Len + 1}
		all.Obj.Slots[0] = a[0]
		for i := 0; i < args.Len; i++ {
			pm.args = append(pm.args, args.Obj.Slots[args.Off+i].(Str))
			all.Obj.Slots[i+1] = args.Obj.Slots[args.Off+i]
		}
		o.Tag = pm
		in.setField(o, t, "Path", a[0])
		in.setField(o, t, "Args", all)
		return Ptr{Obj: o}
	}
	I["(*os/exec.Cmd).Start"] = func(in *Interp, fr *frame, a []Value) Value {
		cp := a[0].(Ptr)
		pm := cp.Obj.Tag.(*procModel)
		t := in.namedType("os/exec", "Cmd")
		// environment as set by the caller
		st := under(t).(*types.Struct)
		for i := 0; i < st.NumFields(); i++ {
			if st.Field(i).Name() == "Env" {
				env := in.loadAt(cp.Obj, cp.Off+in.fieldOffset(st, i), st.Field(i).Type()).(Slice)
				for j := 0; j < env.Len; j++ {
					pm.env = append(pm.env, env.Obj.Slots[env.Off+j].(Str))
				}
			}
		}
		pm.kind = in.env.hookKind
		if in.env.hookStartFails {
			return in.newErrorf("fork/exec: permission denied")
		}
		// exec of a path that does not lead to a file (e.g. a dangling symlink) fails
		if in.env.fs != nil {
			fs := in.env.FS()
			was := fs.tracing
			fs.tracing = false
			r := fs.resolve(pm.path, true)
			fs.tracing = was
			if r.errno != 0 || r.ino == nil {
				return in.newErrorf("fork/exec %s: no such file or directory", pm.path.Show())
			}
		}
		pm.exitCh = in.makeChan(1)
		in.env.procs = append(in.env.procs, pm)
		// cmd.Process must be usable for Kill
		pt := in.namedType("os", "Process")
		po := in.newObj(pt)
		po.Tag = pm
		in.setField(cp.Obj, t, "Process", Ptr{Obj: po})
		if pm.kind != 2 {
			in.trySend(pm.exitCh, in.ts.Const(64, uint64(pm.kind)))
		}
		return Iface{}
	}
	I["(*os/exec.Cmd).Wait"] = func(in *Interp, fr *frame, a []Value) Value {
		pm := a[0].(Ptr).Obj.Tag.(*procModel)
		if pm.exitCh == nil {
			return in.newErrorf("exec: not started")
		}
		pm.waited = true
		v, _ := in.chanRecv(pm.exitCh, types.Typ[types.Int])
		if t, ok := v.(*Term); ok && t.IsConst() && t.Val == 0 {
			return Iface{}
		}
		return in.newErrorf("exit status 1 / signal: killed")
	}
	I["(*os.Process).Kill"] = func(in *Interp, fr *frame, a []Value) Value {
		pm, ok := a[0].(Ptr).Obj.Tag.(*procModel)
		if !ok {
			return in.newErrorf("os: process not initialized")
		}
		if !pm.killed {
			pm.killed = true
			in.trySend(pm.exitCh, in.ts.Const(64, 9))
		}
		return Iface{}
	}
	I["(*os.ProcessState).String"] = func(in *Interp, fr *frame, a []Value) Value { return in.strConst("exit status 0") }
	// harness access to the process log
	I["vp:vpHookBehaviour"] = func(in *Interp, fr *frame, a []Value) Value {
		in.env.hookKind = in.concInt(a[0])
		return nil
	}
	I["vp:vpExecCount"] = func(in *Interp, fr *frame, a []Value) Value { return in.intConst(int64(len(in.env.procs))) }
	I["vp:vpExecPath"] = func(in *Interp, fr *frame, a []Value) Value { return in.env.procs[in.concInt(a[0])].path }
	I["vp:vpExecArgs"] = func(in *Interp, fr *frame, a []Value) Value {
		pm := in.env.procs[in.concInt(a[0])]
		var out []*Term
		for i, s := range pm.args {
			if i > 0 {
				out = append(out, in.byteConst(' '))
			}
			out = append(out, s.B...)
		}
		return Str{out}
	}
	I["vp:vpExecHasEnv"] = func(in *Interp, fr *frame, a []Value) Value {
		pm := in.env.procs[in.concInt(a[0])]
		var cs []*Term
		for _, e := range pm.env {
			cs = append(cs, in.strEq(e, a[1].(Str)))
		}
		return in.ts.Or(cs...)
	}
	I["vp:vpExecKilled"] = func(in *Interp, fr *frame, a []Value) Value {
		return in.ts.Bool(in.env.procs[in.concInt(a[0])].killed)
	}
	I["vp:vpExecWaited"] = func(in *Interp, fr *frame, a []Value) Value {
		return in.ts.Bool(in.env.procs[in.concInt(a[0])].waited)
	}
}
