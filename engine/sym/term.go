// Package sym is gosym: a path-forking symbolic executor for go/ssa that
// emits SMT-LIB2 (QF_BV + a little FP) and talks to a long-lived z3 process.
package sym

import (
	"fmt"
	"math/bits"
	"strconv"
	"strings"
)

// ---------------------------------------------------------------------------
// Sorts and terms

type SortKind uint8

const (
	SBool SortKind = iota
	SBV
	SFP64
)

type Sort struct {
	K SortKind
	W int // bit width for SBV
}

func (s Sort) String() string {
	switch s.K {
	case SBool:
		return "Bool"
	case SFP64:
		return "(_ FloatingPoint 11 53)"
	}
	return "(_ BitVec " + strconv.Itoa(s.W) + ")"
}

var BoolSort = Sort{SBool, 0}

func BV(w int) Sort { return Sort{SBV, w} }

type Op uint8

const (
	OpConst Op = iota
	OpVar
	OpNot
	OpAnd
	OpOr
	OpEq
	OpIte
	OpBvNot
	OpBvNeg
	OpBvAdd
	OpBvSub
	OpBvMul
	OpBvUDiv
	OpBvURem
	OpBvSDiv
	OpBvSRem
	OpBvAnd
	OpBvOr
	OpBvXor
	OpBvShl
	OpBvLshr
	OpBvAshr
	OpBvUlt
	OpBvUle
	OpBvSlt
	OpBvSle
	OpConcat
	OpExtract
	OpZext
	OpSext
	OpFPFromU // unsigned bv -> fp64 (RNE)
	OpFPFromS
	OpFPFromBits
	OpFPRound // fp64 -> fp64, round to integral, ties away from zero (math.Round)
	OpFPToU   // fp64 -> 64-bit unsigned bit-vector, toward zero (Go float -> uint conversion of an in-range value)
	OpFPToS   // fp64 -> 64-bit signed bit-vector, toward zero
	OpFPGe
	OpFPGt
	OpFPLe
	OpFPLt
	OpFPEq
)

var opNames = map[Op]string{
	OpNot: "not", OpAnd: "and", OpOr: "or", OpEq: "=", OpIte: "ite",
	OpBvNot: "bvnot", OpBvNeg: "bvneg", OpBvAdd: "bvadd", OpBvSub: "bvsub", OpBvMul: "bvmul",
	OpBvUDiv: "bvudiv", OpBvURem: "bvurem", OpBvSDiv: "bvsdiv", OpBvSRem: "bvsrem",
	OpBvAnd: "bvand", OpBvOr: "bvor", OpBvXor: "bvxor", OpBvShl: "bvshl", OpBvLshr: "bvlshr", OpBvAshr: "bvashr",
	OpBvUlt: "bvult", OpBvUle: "bvule", OpBvSlt: "bvslt", OpBvSle: "bvsle", OpConcat: "concat",
	OpFPGe: "fp.geq", OpFPGt: "fp.gt", OpFPLe: "fp.leq", OpFPLt: "fp.lt", OpFPEq: "fp.eq",
}

type Term struct {
	ID   int
	Op   Op
	Sort Sort
	Args []*Term
	Val  uint64 // OpConst (bool: 0/1; bv: masked value; fp: bits)
	Name string // OpVar
	Hi   int    // OpExtract hi / ext amount
	Lo   int
}

func (t *Term) IsConst() bool { return t.Op == OpConst }
func (t *Term) IsTrue() bool  { return t.Op == OpConst && t.Sort.K == SBool && t.Val == 1 }
func (t *Term) IsFalse() bool { return t.Op == OpConst && t.Sort.K == SBool && t.Val == 0 }

// TermStore hash-conses terms. One per worker (not thread safe).
type TableInfo struct {
	Vals []uint64
	Idx  *Term
}

type TermStore struct {
	tab    map[string]*Term
	next   int
	True   *Term
	False  *Term
	Tables map[int]TableInfo // term id -> the constant table it selects from
	Ranges map[int][2]uint64 // variable id -> known unsigned [lo,hi] (from path assumptions made at creation)
}

func NewTermStore() *TermStore {
	ts := &TermStore{tab: map[string]*Term{}, Tables: map[int]TableInfo{}, Ranges: map[int][2]uint64{}}
	ts.True = ts.mk(&Term{Op: OpConst, Sort: BoolSort, Val: 1})
	ts.False = ts.mk(&Term{Op: OpConst, Sort: BoolSort, Val: 0})
	return ts
}

func (ts *TermStore) mk(t *Term) *Term {
	var sb strings.Builder
	sb.WriteByte(byte(t.Op))
	sb.WriteByte(byte(t.Sort.K))
	sb.WriteString(strconv.Itoa(t.Sort.W))
	sb.WriteByte(':')
	switch t.Op {
	case OpConst:
		sb.WriteString(strconv.FormatUint(t.Val, 16))
	case OpVar:
		sb.WriteString(t.Name)
	default:
		for _, a := range t.Args {
			sb.WriteString(strconv.Itoa(a.ID))
			sb.WriteByte(',')
		}
		if t.Op == OpExtract || t.Op == OpZext || t.Op == OpSext {
			sb.WriteString(strconv.Itoa(t.Hi))
			sb.WriteByte('.')
			sb.WriteString(strconv.Itoa(t.Lo))
		}
	}
	k := sb.String()
	if e, ok := ts.tab[k]; ok {
		return e
	}
	t.ID = ts.next
	ts.next++
	ts.tab[k] = t
	return t
}

// lowZeros returns a lower bound on the number of low bits of t known to be zero.
func lowZeros(t *Term) int {
	switch t.Op {
	case OpConst:
		if t.Sort.W > 64 {
			return 0
		}
		if t.Val == 0 {
			return t.Sort.W
		}
		return bits.TrailingZeros64(t.Val)
	case OpConcat:
		lo := t.Args[1]
		z := lowZeros(lo)
		if z == lo.Sort.W {
			return z + lowZeros(t.Args[0])
		}
		return z
	case OpZext:
		z := lowZeros(t.Args[0])
		if z == t.Args[0].Sort.W {
			return t.Sort.W
		}
		return z
	}
	return 0
}

func mask(w int) uint64 {
	if w >= 64 {
		return ^uint64(0)
	}
	return (uint64(1) << uint(w)) - 1
}

func sext64(v uint64, w int) int64 {
	if w >= 64 {
		return int64(v)
	}
	sh := uint(64 - w)
	return int64(v<<sh) >> sh
}

func (ts *TermStore) Bool(b bool) *Term {
	if b {
		return ts.True
	}
	return ts.False
}

func (ts *TermStore) Const(w int, v uint64) *Term {
	if w > 64 {
		// wide constants: build by concat of 64-bit chunks (only zero-extended small values supported)
		hi := ts.Const(w-64, 0)
		return ts.Concat(hi, ts.Const(64, v))
	}
	return ts.mk(&Term{Op: OpConst, Sort: BV(w), Val: v & mask(w)})
}

func (ts *TermStore) Var(name string, s Sort) *Term {
	return ts.mk(&Term{Op: OpVar, Sort: s, Name: name})
}

func (ts *TermStore) FPConst(bitsv uint64) *Term {
	return ts.mk(&Term{Op: OpConst, Sort: Sort{SFP64, 0}, Val: bitsv})
}

// ---------------------------------------------------------------------------
// Boolean constructors

func (ts *TermStore) Not(a *Term) *Term {
	if a.IsConst() {
		return ts.Bool(a.Val == 0)
	}
	if a.Op == OpNot {
		return a.Args[0]
	}
	return ts.mk(&Term{Op: OpNot, Sort: BoolSort, Args: []*Term{a}})
}

func (ts *TermStore) And(as ...*Term) *Term {
	var out []*Term
	seen := map[int]bool{}
	for _, a := range as {
		if a.IsFalse() {
			return ts.False
		}
		if a.IsTrue() {
			continue
		}
		if a.Op == OpAnd {
			for _, b := range a.Args {
				if !seen[b.ID] {
					seen[b.ID] = true
					out = append(out, b)
				}
			}
			continue
		}
		if !seen[a.ID] {
			seen[a.ID] = true
			out = append(out, a)
		}
	}
	for _, a := range out {
		if a.Op == OpNot && seen[a.Args[0].ID] {
			return ts.False
		}
	}
	switch len(out) {
	case 0:
		return ts.True
	case 1:
		return out[0]
	}
	return ts.mk(&Term{Op: OpAnd, Sort: BoolSort, Args: out})
}

func (ts *TermStore) Or(as ...*Term) *Term {
	var out []*Term
	seen := map[int]bool{}
	for _, a := range as {
		if a.IsTrue() {
			return ts.True
		}
		if a.IsFalse() {
			continue
		}
		if a.Op == OpOr {
			for _, b := range a.Args {
				if !seen[b.ID] {
					seen[b.ID] = true
					out = append(out, b)
				}
			}
			continue
		}
		if !seen[a.ID] {
			seen[a.ID] = true
			out = append(out, a)
		}
	}
	for _, a := range out {
		if a.Op == OpNot && seen[a.Args[0].ID] {
			return ts.True
		}
	}
	switch len(out) {
	case 0:
		return ts.False
	case 1:
		return out[0]
	}
	return ts.mk(&Term{Op: OpOr, Sort: BoolSort, Args: out})
}

func (ts *TermStore) Implies(a, b *Term) *Term { return ts.Or(ts.Not(a), b) }

func (ts *TermStore) Eq(a, b *Term) *Term {
	if a == b {
		return ts.True
	}
	if a.Sort != b.Sort {
		panic(fmt.Sprintf("Eq sort mismatch %v %v", a.Sort, b.Sort))
	}
	if a.IsConst() && b.IsConst() {
		return ts.Bool(a.Val == b.Val)
	}
	if a.Sort.K == SBool {
		if a.IsConst() {
			a, b = b, a
		}
		if b.IsTrue() {
			return a
		}
		if b.IsFalse() {
			return ts.Not(a)
		}
	}
	if a.Sort.K == SBV && (a.IsConst() || b.IsConst()) {
		x, c := a, b
		if a.IsConst() {
			x, c = b, a
		}
		if r, ok := ts.Ranges[x.ID]; ok && (c.Val < r[0] || c.Val > r[1]) {
			return ts.False
		}
		if ti, ok := ts.Tables[x.ID]; ok {
			// x = Vals[Idx]: x == c  <=>  Idx in {i | Vals[i] == c}
			var parts []*Term
			iw := ti.Idx.Sort.W
			n := len(ti.Vals)
			i := 0
			for i < n {
				if ti.Vals[i] != c.Val {
					i++
					continue
				}
				j := i
				for j+1 < n && ti.Vals[j+1] == c.Val {
					j++
				}
				if i == j {
					parts = append(parts, ts.mk(&Term{Op: OpEq, Sort: BoolSort, Args: []*Term{ts.Const(iw, uint64(i)), ti.Idx}}))
				} else {
					parts = append(parts, ts.And(ts.Ule(ts.Const(iw, uint64(i)), ti.Idx), ts.Ule(ti.Idx, ts.Const(iw, uint64(j)))))
				}
				i = j + 1
			}
			return ts.Or(parts...)
		}
	}
	if a.Sort.K == SBV {
		// ite(c, k1, k2) == k : fold
		if b.IsConst() && a.Op == OpIte && a.Args[1].IsConst() && a.Args[2].IsConst() {
			t1 := a.Args[1].Val == b.Val
			t2 := a.Args[2].Val == b.Val
			switch {
			case t1 && t2:
				return ts.True
			case t1:
				return a.Args[0]
			case t2:
				return ts.Not(a.Args[0])
			default:
				return ts.False
			}
		}
		if a.IsConst() && b.Op == OpIte && b.Args[1].IsConst() && b.Args[2].IsConst() {
			return ts.Eq(b, a)
		}
		// zext(x) == const
		if b.IsConst() && a.Op == OpZext {
			iw := a.Args[0].Sort.W
			if b.Val&^mask(iw) != 0 {
				return ts.False
			}
			return ts.Eq(a.Args[0], ts.Const(iw, b.Val))
		}
		if a.IsConst() && b.Op == OpZext {
			return ts.Eq(b, a)
		}
	}
	if a.ID > b.ID {
		a, b = b, a
	}
	return ts.mk(&Term{Op: OpEq, Sort: BoolSort, Args: []*Term{a, b}})
}

func (ts *TermStore) Ite(c, a, b *Term) *Term {
	if c.IsTrue() {
		return a
	}
	if c.IsFalse() {
		return b
	}
	if a == b {
		return a
	}
	if a.Sort != b.Sort {
		panic("Ite sort mismatch")
	}
	if a.Sort.K == SBool {
		if a.IsTrue() && b.IsFalse() {
			return c
		}
		if a.IsFalse() && b.IsTrue() {
			return ts.Not(c)
		}
		if a.IsTrue() {
			return ts.Or(c, b)
		}
		if a.IsFalse() {
			return ts.And(ts.Not(c), b)
		}
		if b.IsTrue() {
			return ts.Or(ts.Not(c), a)
		}
		if b.IsFalse() {
			return ts.And(c, a)
		}
	}
	return ts.mk(&Term{Op: OpIte, Sort: a.Sort, Args: []*Term{c, a, b}})
}

// ---------------------------------------------------------------------------
// Bit-vector constructors

func (ts *TermStore) bin(op Op, a, b *Term) *Term {
	if a.Sort != b.Sort {
		panic(fmt.Sprintf("bv binop %s sort mismatch %v %v", opNames[op], a.Sort, b.Sort))
	}
	w := a.Sort.W
	if a.IsConst() && b.IsConst() && w <= 64 {
		x, y := a.Val, b.Val
		var r uint64
		switch op {
		case OpBvAdd:
			r = x + y
		case OpBvSub:
			r = x - y
		case OpBvMul:
			r = x * y
		case OpBvUDiv:
			if y == 0 {
				r = mask(w)
			} else {
				r = x / y
			}
		case OpBvURem:
			if y == 0 {
				r = x
			} else {
				r = x % y
			}
		case OpBvSDiv:
			sx, sy := sext64(x, w), sext64(y, w)
			if sy == 0 {
				if sx < 0 {
					r = 1
				} else {
					r = mask(w)
				}
			} else if sy == -1 {
				r = uint64(-sx)
			} else {
				r = uint64(sx / sy)
			}
		case OpBvSRem:
			sx, sy := sext64(x, w), sext64(y, w)
			if sy == 0 {
				r = x
			} else if sy == -1 {
				r = 0
			} else {
				r = uint64(sx % sy)
			}
		case OpBvAnd:
			r = x & y
		case OpBvOr:
			r = x | y
		case OpBvXor:
			r = x ^ y
		case OpBvShl:
			if y >= uint64(w) {
				r = 0
			} else {
				r = x << y
			}
		case OpBvLshr:
			if y >= uint64(w) {
				r = 0
			} else {
				r = x >> y
			}
		case OpBvAshr:
			sx := sext64(x, w)
			if y >= uint64(w) {
				y = uint64(w - 1)
			}
			r = uint64(sx >> y)
		}
		return ts.Const(w, r)
	}
	// identities
	switch op {
	case OpBvAdd:
		if a.IsConst() && a.Val == 0 {
			return b
		}
		if b.IsConst() && b.Val == 0 {
			return a
		}
		if a.IsConst() {
			a, b = b, a
		}
		// (x + c1) + c2
		if b.IsConst() && a.Op == OpBvAdd && a.Args[1].IsConst() && w <= 64 {
			return ts.bin(OpBvAdd, a.Args[0], ts.Const(w, a.Args[1].Val+b.Val))
		}
	case OpBvSub:
		if b.IsConst() && b.Val == 0 {
			return a
		}
		if a == b {
			return ts.Const(w, 0)
		}
		if b.IsConst() && w <= 64 {
			return ts.bin(OpBvAdd, a, ts.Const(w, -b.Val))
		}
	case OpBvMul:
		if a.IsConst() {
			a, b = b, a
		}
		if b.IsConst() {
			if b.Val == 0 {
				return b
			}
			if b.Val == 1 {
				return a
			}
		}
	case OpBvAnd:
		if a.IsConst() {
			a, b = b, a
		}
		if b.IsConst() {
			if b.Val == 0 {
				return b
			}
			if b.Val == mask(w) {
				return a
			}
			// and with low mask -> zext(extract)
			if w <= 64 && b.Val&(b.Val+1) == 0 {
				k := bits.Len64(b.Val)
				return ts.Zext(ts.Extract(a, k-1, 0), w)
			}
		}
		if a == b {
			return a
		}
	case OpBvOr:
		if a.IsConst() {
			a, b = b, a
		}
		if a.Op == OpZext && b.Op == OpZext && a.Args[0].Sort == b.Args[0].Sort {
			return ts.Zext(ts.bin(OpBvOr, a.Args[0], b.Args[0]), w)
		}
		if w <= 64 {
			for pass := 0; pass < 2; pass++ {
				x, y := a, b
				if pass == 1 {
					x, y = b, a
				}
				// x has k known-zero low bits and y fits in k bits: the OR is a concatenation
				k := lowZeros(x)
				if k <= 0 || k >= w {
					continue
				}
				fits := false
				if y.Op == OpZext && y.Args[0].Sort.W <= k {
					fits = true
				} else if y.IsConst() && y.Val&^mask(k) == 0 {
					fits = true
				}
				if fits {
					return ts.Concat(ts.Extract(x, w-1, k), ts.Extract(y, k-1, 0))
				}
			}
		}
	case OpBvXor:
		if a.IsConst() {
			a, b = b, a
		}
		if b.IsConst() && b.Val == 0 {
			return a
		}
		if a == b {
			return ts.Const(w, 0)
		}
	case OpBvShl, OpBvLshr, OpBvAshr:
		if b.IsConst() && b.Val == 0 {
			return a
		}
		if a.IsConst() && a.Val == 0 {
			return a
		}
		if b.IsConst() && w <= 64 && op != OpBvAshr {
			k := int(b.Val)
			if b.Val >= uint64(w) {
				return ts.Const(w, 0)
			}
			if op == OpBvShl {
				// (x << k) = concat(extract(x, w-k-1, 0), 0_k)
				return ts.Concat(ts.Extract(a, w-k-1, 0), ts.Const(k, 0))
			}
			return ts.Zext(ts.Extract(a, w-1, k), w)
		}
	case OpBvUDiv:
		if b.IsConst() && b.Val == 1 {
			return a
		}
	}
	return ts.mk(&Term{Op: op, Sort: a.Sort, Args: []*Term{a, b}})
}

func (ts *TermStore) Add(a, b *Term) *Term   { return ts.bin(OpBvAdd, a, b) }
func (ts *TermStore) Sub(a, b *Term) *Term   { return ts.bin(OpBvSub, a, b) }
func (ts *TermStore) Mul(a, b *Term) *Term   { return ts.bin(OpBvMul, a, b) }
func (ts *TermStore) UDiv(a, b *Term) *Term  { return ts.bin(OpBvUDiv, a, b) }
func (ts *TermStore) URem(a, b *Term) *Term  { return ts.bin(OpBvURem, a, b) }
func (ts *TermStore) SDiv(a, b *Term) *Term  { return ts.bin(OpBvSDiv, a, b) }
func (ts *TermStore) SRem(a, b *Term) *Term  { return ts.bin(OpBvSRem, a, b) }
func (ts *TermStore) BvAnd(a, b *Term) *Term { return ts.bin(OpBvAnd, a, b) }
func (ts *TermStore) BvOr(a, b *Term) *Term  { return ts.bin(OpBvOr, a, b) }
func (ts *TermStore) BvXor(a, b *Term) *Term { return ts.bin(OpBvXor, a, b) }
func (ts *TermStore) Shl(a, b *Term) *Term   { return ts.bin(OpBvShl, a, b) }
func (ts *TermStore) Lshr(a, b *Term) *Term  { return ts.bin(OpBvLshr, a, b) }
func (ts *TermStore) Ashr(a, b *Term) *Term  { return ts.bin(OpBvAshr, a, b) }

func (ts *TermStore) BvNot(a *Term) *Term {
	if a.IsConst() && a.Sort.W <= 64 {
		return ts.Const(a.Sort.W, ^a.Val)
	}
	if a.Op == OpBvNot {
		return a.Args[0]
	}
	return ts.mk(&Term{Op: OpBvNot, Sort: a.Sort, Args: []*Term{a}})
}

func (ts *TermStore) Neg(a *Term) *Term {
	if a.IsConst() && a.Sort.W <= 64 {
		return ts.Const(a.Sort.W, -a.Val)
	}
	return ts.mk(&Term{Op: OpBvNeg, Sort: a.Sort, Args: []*Term{a}})
}

func (ts *TermStore) cmp(op Op, a, b *Term) *Term {
	if a.Sort != b.Sort {
		panic(fmt.Sprintf("bv cmp sort mismatch %v %v", a.Sort, b.Sort))
	}
	w := a.Sort.W
	if a.IsConst() && b.IsConst() && w <= 64 {
		switch op {
		case OpBvUlt:
			return ts.Bool(a.Val < b.Val)
		case OpBvUle:
			return ts.Bool(a.Val <= b.Val)
		case OpBvSlt:
			return ts.Bool(sext64(a.Val, w) < sext64(b.Val, w))
		case OpBvSle:
			return ts.Bool(sext64(a.Val, w) <= sext64(b.Val, w))
		}
	}
	if a == b {
		return ts.Bool(op == OpBvUle || op == OpBvSle)
	}
	if op == OpBvUlt || op == OpBvUle {
		if r, ok := ts.Ranges[a.ID]; ok && b.IsConst() {
			if op == OpBvUlt {
				if r[1] < b.Val {
					return ts.True
				}
				if r[0] >= b.Val {
					return ts.False
				}
			} else {
				if r[1] <= b.Val {
					return ts.True
				}
				if r[0] > b.Val {
					return ts.False
				}
			}
		}
		if r, ok := ts.Ranges[b.ID]; ok && a.IsConst() {
			if op == OpBvUlt {
				if a.Val < r[0] {
					return ts.True
				}
				if a.Val >= r[1] {
					return ts.False
				}
			} else {
				if a.Val <= r[0] {
					return ts.True
				}
				if a.Val > r[1] {
					return ts.False
				}
			}
		}
	}
	// zext(x) cmp const: narrow
	if w <= 64 {
		if a.Op == OpZext && b.IsConst() {
			iw := a.Args[0].Sort.W
			bv := b.Val
			neg := op == OpBvSlt || op == OpBvSle
			if neg && sext64(bv, w) < 0 {
				return ts.False // zext is non-negative
			}
			if bv > mask(iw) {
				return ts.True
			}
			nop := op
			if op == OpBvSlt {
				nop = OpBvUlt
			} else if op == OpBvSle {
				nop = OpBvUle
			}
			return ts.cmp(nop, a.Args[0], ts.Const(iw, bv))
		}
		if b.Op == OpZext && a.IsConst() {
			iw := b.Args[0].Sort.W
			av := a.Val
			neg := op == OpBvSlt || op == OpBvSle
			if neg && sext64(av, w) < 0 {
				return ts.True
			}
			if av > mask(iw) {
				return ts.False
			}
			nop := op
			if op == OpBvSlt {
				nop = OpBvUlt
			} else if op == OpBvSle {
				nop = OpBvUle
			}
			return ts.cmp(nop, ts.Const(iw, av), b.Args[0])
		}
		if a.Op == OpZext && b.Op == OpZext && a.Args[0].Sort == b.Args[0].Sort {
			nop := op
			if op == OpBvSlt {
				nop = OpBvUlt
			} else if op == OpBvSle {
				nop = OpBvUle
			}
			return ts.cmp(nop, a.Args[0], b.Args[0])
		}
		if op == OpBvUlt && b.IsConst() && b.Val == 0 {
			return ts.False
		}
		if op == OpBvUle && a.IsConst() && a.Val == 0 {
			return ts.True
		}
		if op == OpBvUle && b.IsConst() && b.Val == mask(w) {
			return ts.True
		}
	}
	return ts.mk(&Term{Op: op, Sort: BoolSort, Args: []*Term{a, b}})
}

func (ts *TermStore) Ult(a, b *Term) *Term { return ts.cmp(OpBvUlt, a, b) }
func (ts *TermStore) Ule(a, b *Term) *Term { return ts.cmp(OpBvUle, a, b) }
func (ts *TermStore) Slt(a, b *Term) *Term { return ts.cmp(OpBvSlt, a, b) }
func (ts *TermStore) Sle(a, b *Term) *Term { return ts.cmp(OpBvSle, a, b) }

func (ts *TermStore) Concat(hi, lo *Term) *Term {
	w := hi.Sort.W + lo.Sort.W
	if hi.IsConst() && lo.IsConst() && w <= 64 {
		return ts.Const(w, hi.Val<<uint(lo.Sort.W)|lo.Val)
	}
	if hi.IsConst() && hi.Val == 0 && hi.Sort.W <= 64 {
		return ts.Zext(lo, w)
	}
	if hi.Op == OpZext {
		return ts.Zext(ts.Concat(hi.Args[0], lo), w)
	}
	// concat(extract(x,h,m+1), extract(x,m,l)) = extract(x,h,l)
	if hi.Op == OpExtract && lo.Op == OpExtract && hi.Args[0] == lo.Args[0] && hi.Lo == lo.Hi+1 {
		return ts.Extract(hi.Args[0], hi.Hi, lo.Lo)
	}
	return ts.mk(&Term{Op: OpConcat, Sort: BV(w), Args: []*Term{hi, lo}})
}

func (ts *TermStore) Extract(a *Term, hi, lo int) *Term {
	w := hi - lo + 1
	if lo == 0 && w == a.Sort.W {
		return a
	}
	if hi >= a.Sort.W || lo < 0 || w <= 0 {
		panic(fmt.Sprintf("bad extract %d %d of width %d", hi, lo, a.Sort.W))
	}
	if a.IsConst() && a.Sort.W <= 64 {
		return ts.Const(w, a.Val>>uint(lo))
	}
	switch a.Op {
	case OpExtract:
		return ts.Extract(a.Args[0], hi+a.Lo, lo+a.Lo)
	case OpConcat:
		lw := a.Args[1].Sort.W
		if hi < lw {
			return ts.Extract(a.Args[1], hi, lo)
		}
		if lo >= lw {
			return ts.Extract(a.Args[0], hi-lw, lo-lw)
		}
		return ts.Concat(ts.Extract(a.Args[0], hi-lw, 0), ts.Extract(a.Args[1], lw-1, lo))
	case OpZext:
		iw := a.Args[0].Sort.W
		if hi < iw {
			return ts.Extract(a.Args[0], hi, lo)
		}
		if lo >= iw {
			return ts.Const(w, 0)
		}
		return ts.Zext(ts.Extract(a.Args[0], iw-1, lo), w)
	case OpSext:
		iw := a.Args[0].Sort.W
		if hi < iw {
			return ts.Extract(a.Args[0], hi, lo)
		}
	case OpIte:
		if a.Args[1].IsConst() && a.Args[2].IsConst() {
			return ts.Ite(a.Args[0], ts.Extract(a.Args[1], hi, lo), ts.Extract(a.Args[2], hi, lo))
		}
	case OpBvAnd, OpBvOr, OpBvXor:
		if lo == 0 || a.Args[1].IsConst() {
			return ts.bin(a.Op, ts.Extract(a.Args[0], hi, lo), ts.Extract(a.Args[1], hi, lo))
		}
	case OpBvAdd, OpBvSub, OpBvMul:
		if lo == 0 {
			return ts.bin(a.Op, ts.Extract(a.Args[0], hi, 0), ts.Extract(a.Args[1], hi, 0))
		}
	}
	return ts.mk(&Term{Op: OpExtract, Sort: BV(w), Args: []*Term{a}, Hi: hi, Lo: lo})
}

func (ts *TermStore) Zext(a *Term, w int) *Term {
	if w == a.Sort.W {
		return a
	}
	if w < a.Sort.W {
		panic("zext narrows")
	}
	if a.IsConst() && w <= 64 {
		return ts.Const(w, a.Val)
	}
	if a.Op == OpZext {
		return ts.Zext(a.Args[0], w)
	}
	return ts.mk(&Term{Op: OpZext, Sort: BV(w), Args: []*Term{a}, Hi: w - a.Sort.W})
}

func (ts *TermStore) Sext(a *Term, w int) *Term {
	if w == a.Sort.W {
		return a
	}
	if w < a.Sort.W {
		panic("sext narrows")
	}
	if a.IsConst() && w <= 64 {
		return ts.Const(w, uint64(sext64(a.Val, a.Sort.W)))
	}
	if a.Op == OpZext {
		return ts.Zext(a.Args[0], w) // zext then sext: top bit 0
	}
	return ts.mk(&Term{Op: OpSext, Sort: BV(w), Args: []*Term{a}, Hi: w - a.Sort.W})
}

// Resize converts a to width w, sign- or zero-extending or truncating.
func (ts *TermStore) Resize(a *Term, w int, signed bool) *Term {
	switch {
	case w == a.Sort.W:
		return a
	case w < a.Sort.W:
		return ts.Extract(a, w-1, 0)
	case signed:
		return ts.Sext(a, w)
	}
	return ts.Zext(a, w)
}

// FP
func (ts *TermStore) FPFrom(a *Term, signed bool) *Term {
	op := OpFPFromU
	if signed {
		op = OpFPFromS
	}
	return ts.mk(&Term{Op: op, Sort: Sort{SFP64, 0}, Args: []*Term{a}})
}
func (ts *TermStore) FPFromBits(a *Term) *Term {
	return ts.mk(&Term{Op: OpFPFromBits, Sort: Sort{SFP64, 0}, Args: []*Term{a}})
}
func (ts *TermStore) FPRound(a *Term) *Term {
	return ts.mk(&Term{Op: OpFPRound, Sort: Sort{SFP64, 0}, Args: []*Term{a}})
}
func (ts *TermStore) FPToBV(a *Term, signed bool) *Term {
	op := OpFPToU
	if signed {
		op = OpFPToS
	}
	return ts.mk(&Term{Op: op, Sort: BV(64), Args: []*Term{a}})
}
func (ts *TermStore) FPCmp(op Op, a, b *Term) *Term {
	return ts.mk(&Term{Op: op, Sort: BoolSort, Args: []*Term{a, b}})
}

// ---------------------------------------------------------------------------
// SMT-LIB printing with sharing (define-fun per composite node)

type Printer struct {
	defined map[int]bool
	trail   []int
	out     *strings.Builder
}

func constStr(t *Term) string {
	switch t.Sort.K {
	case SBool:
		if t.Val == 1 {
			return "true"
		}
		return "false"
	case SFP64:
		return fmt.Sprintf("((_ to_fp 11 53) #x%016x)", t.Val)
	}
	w := t.Sort.W
	if w%4 == 0 {
		return fmt.Sprintf("#x%0*x", w/4, t.Val)
	}
	return fmt.Sprintf("#b%0*b", w, t.Val)
}

func (p *Printer) ref(t *Term) string {
	switch t.Op {
	case OpConst:
		return constStr(t)
	case OpVar:
		return t.Name
	}
	return "t" + strconv.Itoa(t.ID)
}

// Emit writes the declarations/definitions needed for t (not yet emitted) to p.out
// and returns the reference string for t.
func (p *Printer) Emit(t *Term) string {
	p.emit(t)
	return p.ref(t)
}

func (p *Printer) emit(t *Term) {
	if t.Op == OpConst || p.defined[t.ID] {
		return
	}
	// iterative post-order to avoid deep recursion
	type fr struct {
		t *Term
		i int
	}
	st := []fr{{t, 0}}
	for len(st) > 0 {
		f := &st[len(st)-1]
		if f.t.Op == OpConst || p.defined[f.t.ID] {
			st = st[:len(st)-1]
			continue
		}
		if f.i < len(f.t.Args) {
			a := f.t.Args[f.i]
			f.i++
			if a.Op != OpConst && !p.defined[a.ID] {
				st = append(st, fr{a, 0})
			}
			continue
		}
		p.define(f.t)
		st = st[:len(st)-1]
	}
}

func (p *Printer) define(t *Term) {
	p.defined[t.ID] = true
	p.trail = append(p.trail, t.ID)
	o := p.out
	if t.Op == OpVar {
		o.WriteString("(declare-const ")
		o.WriteString(t.Name)
		o.WriteByte(' ')
		o.WriteString(t.Sort.String())
		o.WriteString(")\n")
		return
	}
	o.WriteString("(define-fun t")
	o.WriteString(strconv.Itoa(t.ID))
	o.WriteString(" () ")
	o.WriteString(t.Sort.String())
	o.WriteString(" (")
	switch t.Op {
	case OpExtract:
		fmt.Fprintf(o, "(_ extract %d %d)", t.Hi, t.Lo)
	case OpZext:
		fmt.Fprintf(o, "(_ zero_extend %d)", t.Hi)
	case OpSext:
		fmt.Fprintf(o, "(_ sign_extend %d)", t.Hi)
	case OpFPFromU:
		o.WriteString("(_ to_fp_unsigned 11 53) RNE")
	case OpFPFromS:
		o.WriteString("(_ to_fp 11 53) RNE")
	case OpFPFromBits:
		o.WriteString("(_ to_fp 11 53)")
	case OpFPRound:
		o.WriteString("fp.roundToIntegral RNA")
	case OpFPToU:
		o.WriteString("(_ fp.to_ubv 64) RTZ")
	case OpFPToS:
		o.WriteString("(_ fp.to_sbv 64) RTZ")
	default:
		o.WriteString(opNames[t.Op])
	}
	for _, a := range t.Args {
		o.WriteByte(' ')
		o.WriteString(p.ref(a))
	}
	o.WriteString("))\n")
}

// String renders a term inline (debugging / evidence samples).
func (t *Term) String() string {
	switch t.Op {
	case OpConst:
		return constStr(t)
	case OpVar:
		return t.Name
	}
	var sb strings.Builder
	sb.WriteByte('(')
	switch t.Op {
	case OpExtract:
		fmt.Fprintf(&sb, "(_ extract %d %d)", t.Hi, t.Lo)
	case OpZext:
		fmt.Fprintf(&sb, "(_ zero_extend %d)", t.Hi)
	case OpSext:
		fmt.Fprintf(&sb, "(_ sign_extend %d)", t.Hi)
	default:
		sb.WriteString(opNames[t.Op])
	}
	for _, a := range t.Args {
		sb.WriteByte(' ')
		if sb.Len() > 400 {
			sb.WriteString("...")
			break
		}
		sb.WriteString(a.String())
	}
	sb.WriteByte(')')
	return sb.String()
}
