package sym

import "math"

// Cached-model support: after a sat answer the model of all variables is fetched once;
// later branch conditions are first evaluated under that model, which decides one side
// for free and leaves a single solver query for the other side.

func (in *Interp) noteVar(t *Term) { in.pathVars = append(in.pathVars, t) }

func (in *Interp) evalBool(t *Term) bool { return in.evalT(t) == 1 }

func (in *Interp) evalT(t *Term) uint64 {
	if t.Op == OpConst {
		return t.Val
	}
	if v, ok := in.evalMemo[t.ID]; ok {
		return v
	}
	// iterative evaluation
	type fr struct {
		t *Term
		i int
	}
	st := []fr{{t, 0}}
	for len(st) > 0 {
		f := &st[len(st)-1]
		x := f.t
		if x.Op == OpConst {
			st = st[:len(st)-1]
			continue
		}
		if _, ok := in.evalMemo[x.ID]; ok {
			st = st[:len(st)-1]
			continue
		}
		if f.i < len(x.Args) {
			a := x.Args[f.i]
			f.i++
			if a.Op != OpConst {
				if _, ok := in.evalMemo[a.ID]; !ok {
					st = append(st, fr{a, 0})
				}
			}
			continue
		}
		in.evalMemo[x.ID] = in.evalNode(x)
		st = st[:len(st)-1]
	}
	return in.evalMemo[t.ID]
}

func (in *Interp) argv(t *Term) uint64 {
	if t.Op == OpConst {
		return t.Val
	}
	return in.evalMemo[t.ID]
}

func (in *Interp) evalNode(x *Term) uint64 {
	w := x.Sort.W
	a := func(i int) uint64 { return in.argv(x.Args[i]) }
	switch x.Op {
	case OpVar:
		v, ok := in.model[x.ID]
		if !ok {
			in.model[x.ID] = 0
		}
		return v
	case OpNot:
		return a(0) ^ 1
	case OpAnd:
		for i := range x.Args {
			if a(i) == 0 {
				return 0
			}
		}
		return 1
	case OpOr:
		for i := range x.Args {
			if a(i) == 1 {
				return 1
			}
		}
		return 0
	case OpEq:
		if a(0) == a(1) {
			return 1
		}
		return 0
	case OpIte:
		if a(0) == 1 {
			return a(1)
		}
		return a(2)
	case OpBvNot:
		return ^a(0) & mask(w)
	case OpBvNeg:
		return -a(0) & mask(w)
	case OpBvAdd, OpBvSub, OpBvMul, OpBvUDiv, OpBvURem, OpBvSDiv, OpBvSRem, OpBvAnd, OpBvOr, OpBvXor, OpBvShl, OpBvLshr, OpBvAshr:
		if w > 64 {
			panic(engineErr("eval of wide bit-vector op"))
		}
		// reuse the constant folder
		r := in.ts.bin(x.Op, in.ts.Const(w, a(0)), in.ts.Const(w, a(1)))
		return r.Val
	case OpBvUlt, OpBvUle, OpBvSlt, OpBvSle:
		aw := x.Args[0].Sort.W
		r := in.ts.cmp(x.Op, in.ts.Const(aw, a(0)), in.ts.Const(aw, a(1)))
		return r.Val
	case OpConcat:
		if w > 64 {
			panic(engineErr("eval of wide concat"))
		}
		return a(0)<<uint(x.Args[1].Sort.W) | a(1)
	case OpExtract:
		return (a(0) >> uint(x.Lo)) & mask(w)
	case OpZext:
		return a(0)
	case OpSext:
		return uint64(sext64(a(0), x.Args[0].Sort.W)) & mask(w)
	case OpFPFromU:
		return math.Float64bits(float64(a(0)))
	case OpFPFromS:
		return math.Float64bits(float64(sext64(a(0), x.Args[0].Sort.W)))
	case OpFPFromBits:
		return a(0)
	case OpFPRound:
		return math.Float64bits(math.Round(math.Float64frombits(a(0))))
	case OpFPToU:
		return uint64(math.Float64frombits(a(0)))
	case OpFPToS:
		return uint64(int64(math.Float64frombits(a(0))))
	case OpFPGe, OpFPGt, OpFPLe, OpFPLt, OpFPEq:
		p, q := math.Float64frombits(a(0)), math.Float64frombits(a(1))
		var r bool
		switch x.Op {
		case OpFPGe:
			r = p >= q
		case OpFPGt:
			r = p > q
		case OpFPLe:
			r = p <= q
		case OpFPLt:
			r = p < q
		case OpFPEq:
			r = p == q
		}
		if r {
			return 1
		}
		return 0
	}
	panic(engineErr("eval: unsupported op %d", x.Op))
}
