package sym

import (
	"bufio"
	"bytes"
	"context"
	"fmt"
	"os"
	"os/exec"
	"path/filepath"
	"sort"
	"strings"
	"sync"
	"time"
)

// SessionReplaySeconds bounds the replay of one logged session on one alternative solver.
var SessionReplaySeconds = 120

// CrossResult summarises the re-discharge of logged solver sessions by other solvers.
type CrossResult struct {
	Solver        string   `json:"solver"`
	Sessions      int      `json:"sessions"`
	Queries       int      `json:"queries"`
	Agree         int      `json:"agree"`
	Undecided     int      `json:"undecided_by_this_solver"`
	Skipped       int      `json:"skipped_primary_unknown"`
	Disagreements []string `json:"disagreements"`
	Errors        int      `json:"error_lines"`
	WallS         float64  `json:"wall_s"`
}

// CrossCheck replays every session file in dir on each alternative solver and compares the
// sat/unsat answers with the ones the primary solver gave (recorded as "; RESULT r" lines).
func CrossCheck(dir string, solvers []string, perQueryMs int, workers int) []CrossResult {
	files, _ := filepath.Glob(filepath.Join(dir, "session-*.smt2"))
	sort.Strings(files)
	var out []CrossResult
	for _, bin := range solvers {
		t0 := time.Now()
		cr := CrossResult{Solver: bin, Sessions: len(files)}
		var mu sync.Mutex
		sem := make(chan struct{}, workers)
		var wg sync.WaitGroup
		for _, f := range files {
			wg.Add(1)
			sem <- struct{}{}
			go func(f string) {
				defer wg.Done()
				defer func() { <-sem }()
				exp, got, nerr, err := replaySession(bin, f, perQueryMs)
				mu.Lock()
				defer mu.Unlock()
				cr.Errors += nerr
				if err != nil {
					cr.Disagreements = append(cr.Disagreements, filepath.Base(f)+": "+err.Error())
					return
				}
				for i, e := range exp {
					cr.Queries++
					g := "missing"
					if i < len(got) {
						g = got[i]
					}
					switch {
					case e == "unknown":
						cr.Skipped++
					case g == e:
						cr.Agree++
					case g == "unknown" || g == "timeout" || g == "missing":
						cr.Undecided++
					default:
						if len(cr.Disagreements) < 10 {
							cr.Disagreements = append(cr.Disagreements, fmt.Sprintf("%s query %d: primary %s, %s %s", filepath.Base(f), i, e, bin, g))
						}
					}
				}
			}(f)
		}
		wg.Wait()
		cr.WallS = time.Since(t0).Seconds()
		out = append(out, cr)
	}
	return out
}

func replaySession(bin, file string, perQueryMs int) (exp, got []string, nerr int, err error) {
	data, e := os.ReadFile(file)
	if e != nil {
		return nil, nil, 0, e
	}
	var input bytes.Buffer
	isCvc := strings.Contains(bin, "cvc5")
	if isCvc {
		input.WriteString("(set-logic ALL)\n")
	}
	sc := bufio.NewScanner(bytes.NewReader(data))
	sc.Buffer(make([]byte, 1<<20), 1<<28)
	for sc.Scan() {
		l := sc.Text()
		if strings.HasPrefix(l, "; RESULT ") {
			exp = append(exp, strings.TrimPrefix(l, "; RESULT "))
			continue
		}
		if strings.HasPrefix(l, "(set-option :timeout") {
			if !isCvc {
				fmt.Fprintf(&input, "(set-option :timeout %d)\n", perQueryMs)
			}
			continue
		}
		if isCvc && strings.HasPrefix(l, "(set-logic") {
			continue
		}
		input.WriteString(l)
		input.WriteByte('\n')
	}
	args := []string{"-in"}
	if isCvc {
		args = []string{"--incremental", "--lang=smt2", "--produce-models", fmt.Sprintf("--tlimit-per=%d", perQueryMs)}
	}
	// a whole-session deadline on top of the per-query limit: what the solver has not answered by
	// then counts as undecided by it
	ctx, cancel := context.WithTimeout(context.Background(), time.Duration(SessionReplaySeconds)*time.Second)
	defer cancel()
	cmd := exec.CommandContext(ctx, bin, args...)
	cmd.Stdin = &input
	var ob bytes.Buffer
	cmd.Stdout = &ob
	cmd.Stderr = &ob
	cmd.Run() // exit status of a solver that printed errors is not 0; the answers decide
	osc := bufio.NewScanner(&ob)
	osc.Buffer(make([]byte, 1<<20), 1<<28)
	for osc.Scan() {
		l := strings.TrimSpace(osc.Text())
		switch {
		case l == "sat" || l == "unsat" || l == "unknown" || l == "timeout":
			got = append(got, l)
		case strings.HasPrefix(l, "(error"):
			nerr++
		}
	}
	// the last logged query may lack its RESULT line if the log was cut: compare the common prefix
	if len(got) > len(exp) {
		got = got[:len(exp)]
	}
	return exp, got, nerr, nil
}
