package sym

import (
	"bufio"
	"fmt"
	"os"
	"regexp"
	"strconv"
	"strings"
)

// Native confirmation of trace-level obligations: the real operation is run under strace by the
// native replay; this file parses the system calls between the harness' marker calls into the
// same event type the vfs produces and runs the same analyses on them.

type TraceCheckResult struct {
	Failed   []string // assertion ids violated on the real trace
	Events   int
	Problems []string
}

var (
	reLine   = regexp.MustCompile(`^(\d+)\s+(\w+)\((.*)\)\s+=\s+(-?\d+)(.*)$`)
	reFdPath = regexp.MustCompile(`^(\d+)<([^>]*)>`)
	reQuoted = regexp.MustCompile(`"((?:[^"\\]|\\.)*)"`)
)

type nativeFS struct {
	ino  map[string]int // path -> inode id
	dirs map[string]bool
	next int
}

func (n *nativeFS) id(path string) int {
	if v, ok := n.ino[path]; ok {
		return v
	}
	n.next++
	n.ino[path] = n.next
	return n.next
}

func dirOf(p string) string {
	i := strings.LastIndexByte(p, '/')
	if i <= 0 {
		return "/"
	}
	return p[:i]
}

func baseOf(p string) string { return p[strings.LastIndexByte(p, '/')+1:] }

// ParseStrace returns the events of the marker thread between /VP_MARK_BEGIN and /VP_MARK_END.
// initPaths: the objects existing before the operation ("d <path>" / "f <path>").
func ParseStrace(logPath string, initPaths []string) ([]fsEvent, *nativeFS, []string, error) {
	f, err := os.Open(logPath)
	if err != nil {
		return nil, nil, nil, err
	}
	defer f.Close()
	nfs := &nativeFS{ino: map[string]int{}, dirs: map[string]bool{}}
	exists := map[string]bool{}
	for _, l := range initPaths {
		kind, path := l[:1], strings.TrimSpace(l[1:])
		nfs.id(path)
		exists[path] = true
		if kind == "d" {
			nfs.dirs[path] = true
		}
	}
	var events []fsEvent
	var problems []string
	marker := ""
	inside := false
	sc := bufio.NewScanner(f)
	sc.Buffer(make([]byte, 1<<20), 1<<24)
	strC := func(s string) Str { // concrete Str without an interpreter
		return Str{nil}
	}
	_ = strC
	for sc.Scan() {
		line := sc.Text()
		m := reLine.FindStringSubmatch(line)
		if m == nil {
			continue
		}
		pid, call, args, ret := m[1], m[2], m[3], m[4]
		if strings.Contains(args, "/VP_MARK_BEGIN") {
			marker, inside = pid, true
			continue
		}
		if strings.Contains(args, "/VP_MARK_END") && pid == marker {
			inside = false
			continue
		}
		if !inside || pid != marker {
			continue
		}
		rv, _ := strconv.Atoi(ret)
		qs := reQuoted.FindAllStringSubmatch(args, -1)
		ev := fsEvent{}
		ok := rv >= 0
		errtxt := ""
		if !ok {
			errtxt = strings.TrimSpace(m[5])
		}
		switch call {
		case "openat", "open", "creat":
			if len(qs) == 0 {
				continue
			}
			path := qs[0][1]
			creat := strings.Contains(args, "O_CREAT") || call == "creat"
			ev = fsEvent{Op: "open", Path: path, Err: errtxt}
			if ok {
				if creat && !exists[path] {
					ev.Op = "create"
					exists[path] = true
					delete(nfs.ino, path)
				}
				ev.Ino = nfs.id(path)
				ev.Dir = nfs.id(dirOf(path))
				if strings.Contains(args, "O_TRUNC") && !creat {
					events = append(events, fsEvent{Op: "truncate", Path: path, Ino: ev.Ino})
				}
			}
		case "write", "pwrite64":
			fm := reFdPath.FindStringSubmatch(args)
			if fm == nil {
				continue
			}
			ev = fsEvent{Op: "write", Path: fm[2], Ino: nfs.id(fm[2]), N: rv, Err: errtxt}
		case "copy_file_range", "sendfile":
			// copy_file_range(in<..>, NULL, out<..>, NULL, len, 0) = n ; sendfile(out, in, ...)
			fds := regexp.MustCompile(`(\d+)<([^>]*)>`).FindAllStringSubmatch(args, -1)
			if len(fds) < 2 {
				continue
			}
			out := fds[1][2]
			if call == "sendfile" {
				out = fds[0][2]
			}
			ev = fsEvent{Op: "write", Path: out, Ino: nfs.id(out), N: rv, Err: errtxt}
		case "fsync", "fdatasync":
			fm := reFdPath.FindStringSubmatch(args)
			if fm == nil {
				continue
			}
			ev = fsEvent{Op: "fsync", Path: fm[2], Ino: nfs.id(fm[2]), Err: errtxt}
		case "rename", "renameat", "renameat2":
			if len(qs) < 2 {
				continue
			}
			from, to := qs[0][1], qs[1][1]
			ev = fsEvent{Op: "rename", Path: from + " -> " + to, Err: errtxt}
			if ok {
				ev.Ino = nfs.id(from)
				if exists[to] {
					ev.Ino2 = nfs.id(to)
				}
				ev.Dir, ev.Dir2 = nfs.id(dirOf(from)), nfs.id(dirOf(to))
				ev.Name, ev.Name2 = Str{}, Str{}
				ev.Path = from + " -> " + to
				nfs.ino[to] = ev.Ino
				delete(nfs.ino, from)
				exists[to] = true
				delete(exists, from)
			}
		case "link", "linkat":
			if len(qs) < 2 {
				continue
			}
			from, to := qs[0][1], qs[1][1]
			ev = fsEvent{Op: "link", Path: to, Err: errtxt}
			if ok {
				ev.Ino = nfs.id(from)
				ev.Dir = nfs.id(dirOf(to))
				nfs.ino[to] = ev.Ino
				exists[to] = true
			}
		case "unlink", "unlinkat", "rmdir":
			if len(qs) == 0 {
				continue
			}
			path := qs[0][1]
			ev = fsEvent{Op: "unlink", Path: path, Err: errtxt}
			if ok {
				ev.Ino = nfs.id(path)
				ev.Dir = nfs.id(dirOf(path))
				delete(nfs.ino, path)
				delete(exists, path)
			}
		case "mkdir", "mkdirat":
			if len(qs) == 0 {
				continue
			}
			path := qs[0][1]
			ev = fsEvent{Op: "mkdir", Path: path, Err: errtxt}
			if ok {
				exists[path] = true
				nfs.dirs[path] = true
				ev.Ino = nfs.id(path)
				ev.Dir = nfs.id(dirOf(path))
			}
		case "ftruncate", "truncate":
			fm := reFdPath.FindStringSubmatch(args)
			if fm != nil {
				ev = fsEvent{Op: "truncate", Path: fm[2], Ino: nfs.id(fm[2])}
			}
		default:
			continue
		}
		if ev.Op != "" {
			events = append(events, ev)
		}
	}
	if marker == "" {
		problems = append(problems, "no marker call found in the strace log")
	}
	return events, nfs, problems, nil
}

// TraceCheck runs the crash / durability / confinement analyses on a real syscall trace.
func TraceCheck(solverBin string, logPath string, initPaths []string, base, user, op string, durable bool, confine bool) (*TraceCheckResult, error) {
	events, nfs, problems, err := ParseStrace(logPath, initPaths)
	if err != nil {
		return nil, err
	}
	res := &TraceCheckResult{Events: len(events), Problems: problems}
	sol, err := NewSolver(solverBin, 10000)
	if err != nil {
		return nil, err
	}
	defer sol.Close()
	in := NewInterp(&Program{Intr: map[string]Intrinsic{}, Covered: map[string]int{}}, sol, &UnitConfig{MaxSteps: 1 << 30, MaxDecisions: 1 << 20})
	in.resetPC()
	in.secScaled = map[int]*Term{}
	in.nsScaled = map[int]*Term{}
	in.decProv = map[string]*Term{}
	in.ufCalls = map[string][]ufCall{}
	in.res = &PathResult{Covers: map[string][]NondetValue{}}
	in.env = newEnvState(in)
	in.unit = "native-trace"
	sol.Push()
	// names as concrete Str for the analysis
	for i := range events {
		ev := &events[i]
		switch ev.Op {
		case "rename":
			parts := strings.SplitN(ev.Path, " -> ", 2)
			if len(parts) == 2 {
				ev.Name, ev.Name2 = in.strConst(baseOf(parts[0])), in.strConst(baseOf(parts[1]))
			}
		default:
			ev.Name = in.strConst(baseOf(ev.Path))
		}
	}
	if confine {
		for _, ev := range events {
			if ev.Err != "" {
				continue
			}
			switch ev.Op {
			case "open", "create", "unlink", "mkdir", "rename", "truncate", "link":
				paths := []string{ev.Path}
				if ev.Op == "rename" {
					paths = strings.SplitN(ev.Path, " -> ", 2)
				}
				for _, p := range paths {
					if p == base || strings.HasPrefix(p, base+"/.tmp") {
						continue
					}
					okp := false
					if dirOf(p) == base {
						n := baseOf(p)
						for _, ext := range []string{".user", ".admin"} {
							if strings.HasSuffix(n, ext) && in.validUserName(in.strConst(strings.TrimSuffix(n, ext))).IsTrue() {
								okp = true
							}
						}
					}
					if !okp {
						res.Failed = append(res.Failed, "model: effects-confined-to-base-dir")
						res.Problems = append(res.Problems, fmt.Sprintf("%s %s", ev.Op, p))
					}
				}
			}
		}
	}
	if op != "" {
		baseID := nfs.id(base)
		init := map[string]int{}
		preexisting := map[int]string{}
		tmpID := -1
		for _, l := range initPaths {
			path := strings.TrimSpace(l[1:])
			if dirOf(path) == base {
				// ids assigned at init time are stable unless renamed over; use the initial assignment
				id := 0
				for i, q := range initPaths {
					if strings.TrimSpace(q[1:]) == path {
						id = i + 1
					}
				}
				init[baseOf(path)] = id
				preexisting[id] = baseOf(path)
				if baseOf(path) == ".tmp" {
					tmpID = id
				}
			}
		}
		for _, ev := range events {
			if ev.Op == "mkdir" && ev.Err == "" && ev.Dir == baseID && baseOf(ev.Path) == ".tmp" {
				tmpID = ev.Ino
			}
		}
		func() {
			// a violated obligation that is false outright ends the "path" (pathEnd): on a real
			// trace that is simply the end of the analysis
			defer func() {
				if r := recover(); r != nil {
					if _, ok := r.(pathEnd); !ok {
						panic(r)
					}
				}
			}()
			in.crashAnalyse(events, baseID, init, tmpID, preexisting, user, op, durable)
		}()
		for _, v := range in.res.Violations {
			res.Failed = append(res.Failed, v.AssertID)
		}
	}
	return res, nil
}
