package sym

type vfs struct{}

func registerVFS(p *Program) {}
func registerTimeRand(p *Program) {}
