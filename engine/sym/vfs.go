package sym

import (
	"fmt"
	"go/types"
	"strings"

	"golang.org/x/tools/go/ssa"
)

// In-engine POSIX-like file system (DESIGN §3, App. B). Paths may contain symbolic bytes;
// shapes (lengths, separator positions) are concrete per path condition.

type inode struct {
	id      int
	kind    byte // 'f' file, 'd' dir, 'l' symlink, 'p' other (fifo/socket/device)
	data    []*Term
	entries []*dirent
	perm    *Term // BV32 permission + special bits (low 12 bits of the mode)
	target  Str   // symlink target
	mount   bool  // a directory on which another file system is mounted (vpOtherDevice): rename/link across its boundary fail with EXDEV
}

type dirent struct {
	name Str
	ino  *inode
}

type vfile struct {
	ino    *inode
	off    int
	flags  int
	name   Str
	closed bool
	order  []int // directory listing order (fixed at first read)
	dirPos int
	write  bool
	read   bool
	path   string // resolved path (diagnostic)
	parent *inode
}

type fsEvent struct {
	Op    string
	Path  string // resolved, '?' for symbolic bytes
	PathS Str
	Ino   int
	Dir   int // inode id of the directory whose entry changes (create/rename/unlink/mkdir)
	Dir2  int
	Ino2  int
	N     int
	Flags int
	Err   string
	Name  Str
	Name2 Str
	Data  []*Term
}

type vfs struct {
	in         *Interp
	root       *inode
	nextIno    int
	trace      []fsEvent
	tracing    bool
	faultArmed bool
	killArmed  bool // kill mode: the process running the operation may be killed before any file-system call
	killFired  bool
	faultFired bool
	faultDesc  string
	permute    bool
	tmpCount   int
	randCount  int
	snaps      []*inode
	traceBase  *inode // snapshot of the tree at vpTraceBegin
}

const (
	oRDONLY = 0x0
	oWRONLY = 0x1
	oRDWR   = 0x2
	oCREATE = 0x40
	oEXCL   = 0x80
	oTRUNC  = 0x200
	oAPPEND = 0x400
)

const (
	ePERM     = 1
	eNOENT    = 2
	eIO       = 5
	eBADF     = 9
	eACCES    = 13
	eXDEV     = 18
	eEXIST    = 17
	eNOTDIR   = 20
	eISDIR    = 21
	eINVAL    = 22
	eMFILE    = 24
	eNOSPC    = 28
	eNOTEMPTY = 39
)

var errnoText = map[int]string{eNOENT: "no such file or directory", eIO: "input/output error", eBADF: "bad file descriptor", eACCES: "permission denied",
	eEXIST: "file exists", eNOTDIR: "not a directory", eISDIR: "is a directory", eINVAL: "invalid argument", eMFILE: "too many open files",
	eNOSPC: "no space left on device", eNOTEMPTY: "directory not empty", ePERM: "operation not permitted", eXDEV: "invalid cross-device link"}

func (e *envState) FS() *vfs {
	if e.fs == nil {
		fs := &vfs{in: e.in}
		fs.root = fs.newInode('d', 0755)
		e.fs = fs
	}
	return e.fs
}

func (fs *vfs) newInode(kind byte, perm uint32) *inode {
	fs.nextIno++
	return &inode{id: fs.nextIno, kind: kind, perm: fs.in.ts.Const(32, uint64(perm))}
}

func (fs *vfs) event(ev fsEvent) {
	if fs.tracing {
		fs.trace = append(fs.trace, ev)
	}
}

// splitPath splits a path into components, forking on which bytes are '/'.
func (fs *vfs) splitPath(p Str) (abs bool, comps []Str) {
	in := fs.in
	start := 0
	slash := in.byteConst('/')
	for i := 0; i <= len(p.B); i++ {
		isSep := i == len(p.B)
		if !isSep {
			isSep = in.Branch(in.ts.Eq(p.B[i], slash))
		}
		if isSep {
			if i == 0 && len(p.B) > 0 {
				abs = true
			}
			if i > start {
				comps = append(comps, Str{p.B[start:i]})
			}
			start = i + 1
		}
	}
	return
}

func (fs *vfs) lookupEntry(d *inode, name Str) *dirent {
	for _, e := range d.entries {
		if fs.in.Branch(fs.in.strEq(e.name, name)) {
			return e
		}
	}
	return nil
}

type resolved struct {
	parent *inode
	name   Str
	ino    *inode // nil if the last component does not exist
	errno  int
	path   string
	dev    int     // device of the directory holding the last component (0 = the root file system, else the mount point's inode id)
	ent    *dirent // the last component's own directory entry (hard links: several entries may share an inode)
}

// resolve walks the path. followLast: follow a symlink in the last component.
func (fs *vfs) resolve(p Str, followLast bool) resolved {
	in := fs.in
	if len(p.B) == 0 {
		return resolved{errno: eNOENT}
	}
	// NUL bytes make the kernel reject the path (Go returns EINVAL before the syscall)
	for _, b := range p.B {
		if in.Branch(in.ts.Eq(b, in.byteConst(0))) {
			return resolved{errno: eINVAL, path: p.Show()}
		}
	}
	abs, comps := fs.splitPath(p)
	if !abs {
		// relative paths resolve against "/" (the harness always uses absolute temp dirs)
	}
	cur := fs.root
	var stack []*inode
	var names []string
	dev := 0
	var devStack []int
	dot := in.strConst(".")
	dotdot := in.strConst("..")
	for i, c := range comps {
		last := i == len(comps)-1
		if cur.kind != 'd' {
			return resolved{errno: eNOTDIR, path: "/" + strings.Join(names, "/")}
		}
		if in.Branch(in.strEq(c, dot)) {
			if last {
				return resolved{parent: nil, ino: cur, name: c, path: "/" + strings.Join(names, "/")}
			}
			continue
		}
		if in.Branch(in.strEq(c, dotdot)) {
			if len(stack) > 0 {
				cur = stack[len(stack)-1]
				stack = stack[:len(stack)-1]
				names = names[:len(names)-1]
				dev = devStack[len(devStack)-1]
				devStack = devStack[:len(devStack)-1]
			}
			if last {
				return resolved{parent: nil, ino: cur, name: c, path: "/" + strings.Join(names, "/")}
			}
			continue
		}
		e := fs.lookupEntry(cur, c)
		if last {
			r := resolved{parent: cur, name: c, path: "/" + strings.Join(append(names, c.Show()), "/"), dev: dev}
			if e != nil {
				r.ino = e.ino
				r.ent = e
				if e.ino.kind == 'l' && followLast {
					t := fs.resolve(e.ino.target, true)
					if t.errno != 0 || t.ino == nil {
						r.ino = nil
						r.errno = eNOENT
						return r
					}
					r.ino = t.ino
				}
			}
			return r
		}
		if e == nil {
			return resolved{errno: eNOENT, path: "/" + strings.Join(append(names, c.Show()), "/")}
		}
		nxt := e.ino
		if nxt.kind == 'l' {
			t := fs.resolve(nxt.target, true)
			if t.errno != 0 || t.ino == nil {
				return resolved{errno: eNOENT}
			}
			nxt = t.ino
		}
		stack = append(stack, cur)
		devStack = append(devStack, dev)
		names = append(names, c.Show())
		cur = nxt
		if cur.mount {
			dev = cur.id
		}
	}
	// path was "/" or only separators
	return resolved{parent: nil, ino: cur, path: "/"}
}

// fault decides whether the current call fails in single-fault mode.
func (fs *vfs) fault(op string, errno int) int {
	if fs.killArmed && !fs.killFired {
		switch op {
		case "stat", "fstat", "read", "getdents":
			// a kill before a read-only call leaves the same state as before the next mutating one
		default:
			if fs.in.Choose(2) == 1 {
				fs.killFired = true
				fs.in.env.extra["killed-before"] = fmt.Sprintf("%s#%d", op, len(fs.trace))
				panic(crashKill{})
			}
		}
	}
	if !fs.faultArmed || fs.faultFired {
		return 0
	}
	if fs.in.Choose(2) == 1 {
		fs.faultFired = true
		fs.faultDesc = fmt.Sprintf("%s#%d:%s", op, len(fs.trace), errnoText[errno])
		fs.in.env.extra["fault"] = fs.faultDesc
		return errno
	}
	return 0
}

// ---------------------------------------------------------------------------
// value constructors for real os / io/fs types

func (in *Interp) namedType(pkg, name string) types.Type {
	p := in.P.Pkgs[pkg]
	if p == nil {
		panic(engineErr("package %s not loaded", pkg))
	}
	m := p.Type(name)
	if m == nil {
		panic(engineErr("type %s.%s not found", pkg, name))
	}
	return m.Type()
}

func (in *Interp) errnoValue(errno int) Iface {
	return Iface{T: in.namedType("syscall", "Errno"), V: in.ts.Const(64, uint64(errno))}
}

func (in *Interp) pathError(op string, path Str, errno int) Iface {
	t := in.namedType("io/fs", "PathError")
	o := in.newObj(t)
	o.Slots[0] = in.strConst(op)
	o.Slots[1] = path
	o.Slots[2] = in.errnoValue(errno)
	return Iface{T: types.NewPointer(t), V: Ptr{Obj: o}}
}

// linkError builds an *os.LinkError (os.Link, and os.Rename natively; the engine's rename reports
// a PathError, which the code under test only ever treats as an opaque error).
func (in *Interp) linkError(op string, oldp, newp Str, errno int) Iface {
	t := in.namedType("os", "LinkError")
	o := in.newObj(t)
	o.Slots[0] = in.strConst(op)
	o.Slots[1] = oldp
	o.Slots[2] = newp
	o.Slots[3] = in.errnoValue(errno)
	return Iface{T: types.NewPointer(t), V: Ptr{Obj: o}}
}

func (in *Interp) setField(o *Obj, t types.Type, field string, v Value) {
	st := under(t).(*types.Struct)
	for i := 0; i < st.NumFields(); i++ {
		if st.Field(i).Name() == field {
			in.storeAt(o, in.fieldOffset(st, i), st.Field(i).Type(), v)
			return
		}
	}
	panic(engineErr("no field %s in %v", field, t))
}

func (fs *vfs) modeTerm(ino *inode) *Term {
	ts := fs.in.ts
	// Go FileMode: ModeDir 1<<31, ModeSymlink 1<<27, ModeNamedPipe 1<<25
	var typ uint64
	switch ino.kind {
	case 'd':
		typ = 1 << 31
	case 'l':
		typ = 1 << 27
	case 'p':
		typ = 1 << 25
	}
	return ts.BvOr(ts.Const(32, typ), ts.BvAnd(ino.perm, ts.Const(32, 0777)))
}

func (fs *vfs) fileInfo(name Str, ino *inode) Iface {
	in := fs.in
	t := in.namedType("os", "fileStat")
	o := in.newObj(t)
	in.setField(o, t, "name", name)
	in.setField(o, t, "size", in.intConst(int64(len(ino.data))))
	in.setField(o, t, "mode", fs.modeTerm(ino))
	return Iface{T: types.NewPointer(t), V: Ptr{Obj: o}}
}

func (fs *vfs) dirEntry(name Str, ino *inode) Iface {
	in := fs.in
	t := in.namedType("os", "unixDirent")
	o := in.newObj(t)
	in.setField(o, t, "name", name)
	ts := in.ts
	in.setField(o, t, "typ", ts.BvAnd(fs.modeTerm(ino), ts.Const(32, 0x8f280000))) // ModeType bits
	in.setField(o, t, "info", fs.fileInfo(name, ino))
	return Iface{T: types.NewPointer(t), V: Ptr{Obj: o}}
}

func (fs *vfs) newFile(f *vfile) Ptr {
	in := fs.in
	t := in.namedType("os", "File")
	o := in.newObj(t)
	o.Tag = f
	return Ptr{Obj: o}
}

func fileOf(v Value) *vfile {
	p, ok := v.(Ptr)
	if !ok || p.Obj == nil {
		return nil
	}
	f, _ := p.Obj.Tag.(*vfile)
	return f
}

func errTuple(in *Interp, e Iface) Value { return e }

// ---------------------------------------------------------------------------
// operations

func (fs *vfs) openFile(name Str, flags int, perm uint32) (Ptr, Iface) {
	in := fs.in
	if en := fs.fault("open", eACCES); en != 0 {
		fs.event(fsEvent{Op: "open", Path: name.Show(), PathS: name, Flags: flags, Err: errnoText[en]})
		return Ptr{}, in.pathError("open", name, en)
	}
	r := fs.resolve(name, true)
	fail := func(en int) (Ptr, Iface) {
		fs.event(fsEvent{Op: "open", Path: r.path, PathS: name, Flags: flags, Err: errnoText[en]})
		return Ptr{}, in.pathError("open", name, en)
	}
	if r.errno != 0 {
		return fail(r.errno)
	}
	created := false
	if r.ino == nil {
		if flags&oCREATE == 0 {
			return fail(eNOENT)
		}
		if r.parent == nil {
			return fail(eISDIR)
		}
		// trailing dot / dotdot names cannot be created
		ino := fs.newInode('f', perm)
		r.parent.entries = append(r.parent.entries, &dirent{name: r.name, ino: ino})
		r.ino = ino
		created = true
	} else {
		if flags&oCREATE != 0 && flags&oEXCL != 0 {
			return fail(eEXIST)
		}
		if r.ino.kind == 'd' && flags&(oWRONLY|oRDWR) != 0 {
			return fail(eISDIR)
		}
		if flags&oTRUNC != 0 && r.ino.kind == 'f' && flags&(oWRONLY|oRDWR) != 0 {
			r.ino.data = nil
			fs.event(fsEvent{Op: "truncate", Path: r.path, PathS: name, Ino: r.ino.id})
		}
	}
	ev := fsEvent{Op: "open", Path: r.path, PathS: name, Ino: r.ino.id, Flags: flags, Name: r.name}
	if r.parent != nil {
		ev.Dir = r.parent.id
	}
	if created {
		ev.Op = "create"
	}
	fs.event(ev)
	f := &vfile{ino: r.ino, flags: flags, name: name, path: r.path, parent: r.parent}
	f.write = flags&(oWRONLY|oRDWR) != 0
	f.read = flags&oWRONLY == 0
	return fs.newFile(f), Iface{}
}

func (fs *vfs) stat(name Str, follow bool) (Iface, Iface) {
	in := fs.in
	if en := fs.fault("stat", eACCES); en != 0 {
		fs.event(fsEvent{Op: "stat", Path: name.Show(), PathS: name, Err: errnoText[en]})
		return Iface{}, in.pathError("stat", name, en)
	}
	r := fs.resolve(name, follow)
	if r.errno == 0 && r.ino == nil {
		r.errno = eNOENT
	}
	if r.errno != 0 {
		fs.event(fsEvent{Op: "stat", Path: r.path, PathS: name, Err: errnoText[r.errno]})
		return Iface{}, in.pathError("stat", name, r.errno)
	}
	fs.event(fsEvent{Op: "stat", Path: r.path, PathS: name, Ino: r.ino.id})
	base := name
	if r.parent != nil {
		base = r.name
	}
	return fs.fileInfo(base, r.ino), Iface{}
}

func (fs *vfs) mkdir(name Str, perm uint32) Iface {
	in := fs.in
	if en := fs.fault("mkdir", eNOSPC); en != 0 {
		fs.event(fsEvent{Op: "mkdir", Path: name.Show(), PathS: name, Err: errnoText[en]})
		return in.pathError("mkdir", name, en)
	}
	r := fs.resolve(name, false)
	en := r.errno
	if en == 0 && r.ino != nil {
		en = eEXIST
	}
	if en == 0 && r.parent == nil {
		en = eEXIST
	}
	if en != 0 {
		fs.event(fsEvent{Op: "mkdir", Path: r.path, PathS: name, Err: errnoText[en]})
		return in.pathError("mkdir", name, en)
	}
	ino := fs.newInode('d', perm)
	r.parent.entries = append(r.parent.entries, &dirent{name: r.name, ino: ino})
	fs.event(fsEvent{Op: "mkdir", Path: r.path, PathS: name, Ino: ino.id, Dir: r.parent.id, Name: r.name})
	return Iface{}
}

func (fs *vfs) remove(name Str) Iface {
	in := fs.in
	if en := fs.fault("unlink", eACCES); en != 0 {
		fs.event(fsEvent{Op: "unlink", Path: name.Show(), PathS: name, Err: errnoText[en]})
		return in.pathError("remove", name, en)
	}
	r := fs.resolve(name, false)
	en := r.errno
	if en == 0 && (r.ino == nil || r.parent == nil) {
		en = eNOENT
	}
	if en == 0 && r.ino.kind == 'd' && len(r.ino.entries) > 0 {
		en = eNOTEMPTY
	}
	if en != 0 {
		fs.event(fsEvent{Op: "unlink", Path: r.path, PathS: name, Err: errnoText[en]})
		return in.pathError("remove", name, en)
	}
	if r.ent != nil {
		fs.removeDirent(r.parent, r.ent)
	} else {
		fs.unlinkEntry(r.parent, r.ino)
	}
	fs.event(fsEvent{Op: "unlink", Path: r.path, PathS: name, Ino: r.ino.id, Dir: r.parent.id, Name: r.name})
	return Iface{}
}

func (fs *vfs) unlinkEntry(d *inode, ino *inode) {
	ne := make([]*dirent, 0, len(d.entries))
	for _, e := range d.entries {
		if e.ino != ino {
			ne = append(ne, e)
		}
	}
	d.entries = ne
}

func (fs *vfs) rename(from, to Str) Iface {
	in := fs.in
	if en := fs.fault("rename", eNOSPC); en != 0 {
		fs.event(fsEvent{Op: "rename", Path: from.Show() + " -> " + to.Show(), PathS: from, Err: errnoText[en]})
		return in.pathError("rename", from, en)
	}
	a := fs.resolve(from, false)
	b := fs.resolve(to, false)
	en := a.errno
	if en == 0 && (a.ino == nil || a.parent == nil) {
		en = eNOENT
	}
	if en == 0 {
		en = b.errno
	}
	if en == 0 && b.parent == nil {
		en = eEXIST
	}
	if en == 0 && a.dev != b.dev {
		en = eXDEV
	}
	if en == 0 && b.ino != nil {
		if b.ino.kind == 'd' && a.ino.kind != 'd' {
			en = eISDIR
		} else if b.ino.kind != 'd' && a.ino.kind == 'd' {
			en = eNOTDIR
		} else if b.ino.kind == 'd' && len(b.ino.entries) > 0 {
			en = eNOTEMPTY
		}
	}
	if en != 0 {
		fs.event(fsEvent{Op: "rename", Path: a.path + " -> " + b.path, PathS: from, Err: errnoText[en]})
		return in.pathError("rename", from, en)
	}
	if b.ino == a.ino {
		fs.event(fsEvent{Op: "rename", Path: a.path + " -> " + b.path, PathS: from, Ino: a.ino.id, Dir: a.parent.id, Dir2: b.parent.id, Name: a.name, Name2: b.name})
		return Iface{}
	}
	old := 0
	srcEnt := a.ent
	if srcEnt == nil {
		for _, e := range a.parent.entries {
			if e.ino == a.ino {
				srcEnt = e
			}
		}
	}
	if b.ino != nil {
		old = b.ino.id
		for _, e := range b.parent.entries {
			if (b.ent != nil && e == b.ent) || (b.ent == nil && e.ino == b.ino) {
				e.ino = a.ino // the target name now refers to the source inode (atomic replace)
			}
		}
		fs.removeDirent(a.parent, srcEnt)
	} else {
		fs.removeDirent(a.parent, srcEnt)
		b.parent.entries = append(b.parent.entries, &dirent{name: b.name, ino: a.ino})
	}
	fs.event(fsEvent{Op: "rename", Path: a.path + " -> " + b.path, PathS: from, Ino: a.ino.id, Ino2: old, Dir: a.parent.id, Dir2: b.parent.id, Name: a.name, Name2: b.name})
	return Iface{}
}

func (fs *vfs) removeDirent(d *inode, ent *dirent) {
	ne := make([]*dirent, 0, len(d.entries))
	for _, e := range d.entries {
		if e != ent {
			ne = append(ne, e)
		}
	}
	d.entries = ne
}

// ---------------------------------------------------------------------------

func registerVFS(p *Program) {
	I := p.Intr
	tupErr := func(in *Interp, v Value, e Iface) Value { return Tuple{v, e} }

	I["os.OpenFile"] = func(in *Interp, fr *frame, a []Value) Value {
		fs := in.env.FS()
		flags := in.concInt(a[1])
		perm := uint32(in.concInt(in.ts.Resize(a[2].(*Term), 64, false)))
		f, e := fs.openFile(a[0].(Str), flags, perm&0777)
		return tupErr(in, f, e)
	}
	I["os.Stat"] = func(in *Interp, fr *frame, a []Value) Value {
		fi, e := in.env.FS().stat(a[0].(Str), true)
		return tupErr(in, fi, e)
	}
	I["os.Lstat"] = func(in *Interp, fr *frame, a []Value) Value {
		fi, e := in.env.FS().stat(a[0].(Str), false)
		return tupErr(in, fi, e)
	}
	I["os.Mkdir"] = func(in *Interp, fr *frame, a []Value) Value {
		perm := uint32(in.concInt(in.ts.Resize(a[1].(*Term), 64, false)))
		return in.env.FS().mkdir(a[0].(Str), perm&0777)
	}
	I["os.Remove"] = func(in *Interp, fr *frame, a []Value) Value { return in.env.FS().remove(a[0].(Str)) }
	I["os.Rename"] = func(in *Interp, fr *frame, a []Value) Value {
		return in.env.FS().rename(a[0].(Str), a[1].(Str))
	}
	I["os.Chmod"] = func(in *Interp, fr *frame, a []Value) Value {
		fs := in.env.FS()
		r := fs.resolve(a[0].(Str), true)
		if r.errno != 0 || r.ino == nil {
			return in.pathError("chmod", a[0].(Str), eNOENT)
		}
		r.ino.perm = in.ts.BvAnd(a[1].(*Term), in.ts.Const(32, 07777))
		fs.event(fsEvent{Op: "chmod", Path: r.path, Ino: r.ino.id})
		return Iface{}
	}
	I["os.Link"] = func(in *Interp, fr *frame, a []Value) Value {
		fs := in.env.FS()
		if en := fs.fault("link", eNOSPC); en != 0 {
			fs.event(fsEvent{Op: "link", Path: a[1].(Str).Show(), PathS: a[1].(Str), Err: errnoText[en]})
			return in.linkError("link", a[0].(Str), a[1].(Str), en)
		}
		o := fs.resolve(a[0].(Str), false)
		n := fs.resolve(a[1].(Str), false)
		en := o.errno
		if en == 0 && (o.ino == nil || o.parent == nil) {
			en = eNOENT
		}
		if en == 0 && o.ino.kind == 'd' {
			en = ePERM
		}
		if en == 0 {
			en = n.errno
		}
		if en == 0 && (n.ino != nil || n.parent == nil) {
			en = eEXIST
		}
		if en == 0 && o.dev != n.dev {
			en = eXDEV
		}
		if en != 0 {
			fs.event(fsEvent{Op: "link", Path: n.path, PathS: a[1].(Str), Err: errnoText[en]})
			return in.linkError("link", a[0].(Str), a[1].(Str), en)
		}
		n.parent.entries = append(n.parent.entries, &dirent{name: n.name, ino: o.ino})
		fs.event(fsEvent{Op: "link", Path: n.path, PathS: a[1].(Str), Ino: o.ino.id, Dir: n.parent.id, Name: n.name})
		return Iface{}
	}
	I["os.Symlink"] = func(in *Interp, fr *frame, a []Value) Value {
		fs := in.env.FS()
		r := fs.resolve(a[1].(Str), false)
		if r.errno != 0 || r.ino != nil || r.parent == nil {
			return in.pathError("symlink", a[1].(Str), eEXIST)
		}
		ino := fs.newInode('l', 0777)
		ino.target = a[0].(Str)
		r.parent.entries = append(r.parent.entries, &dirent{name: r.name, ino: ino})
		fs.event(fsEvent{Op: "symlink", Path: r.path, Ino: ino.id, Dir: r.parent.id, Name: r.name})
		return Iface{}
	}
	I["os.nextRandom"] = func(in *Interp, fr *frame, a []Value) Value {
		fs := in.env.FS()
		fs.randCount++
		return in.strConst(fmt.Sprintf("9%09d", fs.randCount))
	}
	I["os.LookupEnv"] = func(in *Interp, fr *frame, a []Value) Value { return Tuple{Str{}, in.ts.False} }
	I["os.Getenv"] = func(in *Interp, fr *frame, a []Value) Value { return Str{} }
	I["os.Environ"] = func(in *Interp, fr *frame, a []Value) Value {
		sl := Slice{Obj: in.newArray(types.Typ[types.String], 1), Len: 1, Cap: 1}
		sl.Obj.Slots[0] = in.strConst("VP_ENV=1")
		return sl
	}
	I["os.ReadFile"] = func(in *Interp, fr *frame, a []Value) Value {
		fs := in.env.FS()
		f, e := fs.openFile(a[0].(Str), oRDONLY, 0)
		if e.T != nil {
			return Tuple{Slice{}, e}
		}
		vf := fileOf(f)
		if vf.ino.kind == 'd' {
			return Tuple{Slice{}, in.pathError("read", a[0].(Str), eISDIR)}
		}
		fs.event(fsEvent{Op: "read", Path: vf.path, Ino: vf.ino.id, N: len(vf.ino.data)})
		fs.event(fsEvent{Op: "close", Path: vf.path, Ino: vf.ino.id})
		if len(vf.ino.data) == 0 {
			return Tuple{Slice{Obj: in.newArray(types.Typ[types.Byte], 0)}, Iface{}}
		}
		return Tuple{in.newByteSlice(vf.ino.data), Iface{}}
	}
	I["os.WriteFile"] = func(in *Interp, fr *frame, a []Value) Value {
		fs := in.env.FS()
		perm := uint32(in.concInt(in.ts.Resize(a[2].(*Term), 64, false)))
		f, e := fs.openFile(a[0].(Str), oWRONLY|oCREATE|oTRUNC, perm&0777)
		if e.T != nil {
			return e
		}
		vf := fileOf(f)
		data := in.sliceBytesOrNil(a[1].(Slice))
		vf.ino.data = append([]*Term(nil), data...)
		fs.event(fsEvent{Op: "write", Path: vf.path, Ino: vf.ino.id, N: len(data), Data: data})
		fs.event(fsEvent{Op: "close", Path: vf.path, Ino: vf.ino.id})
		return Iface{}
	}

	// ---- *os.File methods ----
	badf := func(in *Interp, op string) Iface { return in.pathError(op, Str{}, eBADF) }
	I["(*os.File).Name"] = func(in *Interp, fr *frame, a []Value) Value {
		f := fileOf(a[0])
		if f == nil {
			panic(in.goPanicStr("runtime error: invalid memory address or nil pointer dereference"))
		}
		return f.name
	}
	I["(*os.File).Close"] = func(in *Interp, fr *frame, a []Value) Value {
		f := fileOf(a[0])
		if f == nil {
			return in.newErrorf("invalid argument")
		}
		if f.closed {
			return in.pathError("close", f.name, eBADF)
		}
		f.closed = true
		in.env.FS().event(fsEvent{Op: "close", Path: f.path, Ino: f.ino.id})
		return Iface{}
	}
	I["(*os.File).Sync"] = func(in *Interp, fr *frame, a []Value) Value {
		f := fileOf(a[0])
		fs := in.env.FS()
		if f == nil || f.closed {
			return badf(in, "sync")
		}
		if en := fs.fault("fsync", eIO); en != 0 {
			fs.event(fsEvent{Op: "fsync", Path: f.path, Ino: f.ino.id, Err: errnoText[en]})
			return in.pathError("sync", f.name, en)
		}
		fs.event(fsEvent{Op: "fsync", Path: f.path, Ino: f.ino.id})
		return Iface{}
	}
	I["(*os.File).Stat"] = func(in *Interp, fr *frame, a []Value) Value {
		f := fileOf(a[0])
		fs := in.env.FS()
		if f == nil || f.closed {
			return Tuple{Iface{}, badf(in, "stat")}
		}
		if en := fs.fault("fstat", eIO); en != 0 {
			fs.event(fsEvent{Op: "fstat", Path: f.path, Ino: f.ino.id, Err: errnoText[en]})
			return Tuple{Iface{}, in.pathError("stat", f.name, en)}
		}
		fs.event(fsEvent{Op: "fstat", Path: f.path, Ino: f.ino.id})
		// base name of the path as opened
		name := f.name
		for i := len(name.B) - 1; i >= 0; i-- {
			if name.B[i].IsConst() && name.B[i].Val == '/' {
				name = Str{name.B[i+1:]}
				break
			}
		}
		return Tuple{fs.fileInfo(name, f.ino), Iface{}}
	}
	readImpl := func(in *Interp, f *vfile, max int) ([]*Term, Iface) {
		fs := in.env.FS()
		if f == nil || f.closed || !f.read {
			return nil, badf(in, "read")
		}
		if f.ino.kind == 'd' {
			return nil, in.pathError("read", f.name, eISDIR)
		}
		if en := fs.fault("read", eIO); en != 0 {
			fs.event(fsEvent{Op: "read", Path: f.path, Ino: f.ino.id, Err: errnoText[en]})
			return nil, in.pathError("read", f.name, en)
		}
		n := len(f.ino.data) - f.off
		if n < 0 {
			n = 0
		}
		if n > max {
			n = max
		}
		out := f.ino.data[f.off : f.off+n]
		f.off += n
		fs.event(fsEvent{Op: "read", Path: f.path, Ino: f.ino.id, N: n})
		return out, Iface{}
	}
	I["(*os.File).Read"] = func(in *Interp, fr *frame, a []Value) Value {
		f := fileOf(a[0])
		buf := a[1].(Slice)
		out, e := readImpl(in, f, buf.Len)
		if e.T != nil {
			return Tuple{in.intConst(0), e}
		}
		if len(out) == 0 && buf.Len > 0 {
			return Tuple{in.intConst(0), in.load(Ptr{Obj: in.global(in.P.Pkgs["io"].Var("EOF"))}, in.P.Pkgs["io"].Var("EOF").Type().(*types.Pointer).Elem())}
		}
		for i, t := range out {
			in.setSlot(buf.Obj, buf.Off+i, t)
		}
		return Tuple{in.intConst(int64(len(out))), Iface{}}
	}
	writeImpl := func(in *Interp, f *vfile, data []*Term) (int, Iface) {
		fs := in.env.FS()
		if f == nil || f.closed || !f.write {
			if f != nil && !f.closed {
				fs.event(fsEvent{Op: "write", Path: f.path, Ino: f.ino.id, Err: "bad file descriptor"})
			}
			return 0, badf(in, "write")
		}
		if en := fs.fault("write", eNOSPC); en != 0 {
			fs.event(fsEvent{Op: "write", Path: f.path, Ino: f.ino.id, Err: errnoText[en]})
			return 0, in.pathError("write", f.name, en)
		}
		off := f.off
		if f.flags&oAPPEND != 0 {
			off = len(f.ino.data)
		}
		nd := append([]*Term(nil), f.ino.data...)
		for len(nd) < off {
			nd = append(nd, in.byteConst(0))
		}
		for i, t := range data {
			if off+i < len(nd) {
				nd[off+i] = t
			} else {
				nd = append(nd, t)
			}
		}
		f.ino.data = nd
		f.off = off + len(data)
		fs.event(fsEvent{Op: "write", Path: f.path, Ino: f.ino.id, N: len(data), Data: data})
		return len(data), Iface{}
	}
	I["(*os.File).Seek"] = func(in *Interp, fr *frame, a []Value) Value {
		f := fileOf(a[0])
		if f == nil || f.closed {
			return Tuple{in.ts.Const(64, 0), badf(in, "seek")}
		}
		off := int(int64(in.concInt(a[1].(*Term))))
		switch in.concInt(in.ts.Resize(a[2].(*Term), 64, true)) {
		case 0:
		case 1:
			off += f.off
		case 2:
			off += len(f.ino.data)
		default:
			return Tuple{in.ts.Const(64, 0), in.pathError("seek", f.name, eINVAL)}
		}
		if off < 0 {
			return Tuple{in.ts.Const(64, 0), in.pathError("seek", f.name, eINVAL)}
		}
		f.off = off
		return Tuple{in.ts.Const(64, uint64(off)), Iface{}}
	}
	I["(*os.File).Write"] = func(in *Interp, fr *frame, a []Value) Value {
		n, e := writeImpl(in, fileOf(a[0]), in.sliceBytesOrNil(a[1].(Slice)))
		return Tuple{in.intConst(int64(n)), e}
	}
	I["(*os.File).WriteString"] = func(in *Interp, fr *frame, a []Value) Value {
		n, e := writeImpl(in, fileOf(a[0]), a[1].(Str).B)
		return Tuple{in.intConst(int64(n)), e}
	}
	// WriteTo copies the rest of the file to w (io.Copy semantics, one chunk).
	I["(*os.File).WriteTo"] = func(in *Interp, fr *frame, a []Value) Value {
		f := fileOf(a[0])
		w := a[1].(Iface)
		total := 0
		for {
			out, e := readImpl(in, f, 1<<30)
			if e.T != nil {
				return Tuple{in.intConst(int64(total)), e}
			}
			if len(out) == 0 {
				return Tuple{in.intConst(int64(total)), Iface{}}
			}
			if wf := fileOf(w.V); wf != nil {
				n, e := writeImpl(in, wf, out)
				total += n
				if e.T != nil {
					return Tuple{in.intConst(int64(total)), e}
				}
			} else {
				fn := in.lookupMethodByName(w.T, "Write")
				r := in.call(fn, []Value{w.V, in.newByteSlice(out)}, nil, fr).(Tuple)
				total += in.concInt(r[0])
				if r[1].(Iface).T != nil {
					return Tuple{in.intConst(int64(total)), r[1]}
				}
			}
		}
	}
	// ReadFrom: not handled -> generic copy loop through r.Read
	I["(*os.File).ReadFrom"] = func(in *Interp, fr *frame, a []Value) Value {
		f := fileOf(a[0])
		r := a[1].(Iface)
		fn := in.lookupMethodByName(r.T, "Read")
		total := 0
		for iter := 0; iter < 1000; iter++ {
			buf := Slice{Obj: in.newArray(types.Typ[types.Byte], 32768), Len: 32768, Cap: 32768}
			res := in.call(fn, []Value{r.V, buf}, nil, fr).(Tuple)
			n := in.concInt(res[0])
			if n > 0 {
				w, e := writeImpl(in, f, in.sliceBytes(Slice{Obj: buf.Obj, Off: 0, Len: n, Cap: n}))
				total += w
				if e.T != nil {
					return Tuple{in.intConst(int64(total)), e}
				}
			}
			if er := res[1].(Iface); er.T != nil {
				if in.isEOF(er) {
					return Tuple{in.intConst(int64(total)), Iface{}}
				}
				return Tuple{in.intConst(int64(total)), er}
			}
		}
		panic(engineErr("ReadFrom: reader never ends"))
	}
	listDir := func(in *Interp, f *vfile, n int, op string) ([]*dirent, Iface) {
		fs := in.env.FS()
		if f == nil || f.closed {
			return nil, badf(in, op)
		}
		if f.ino.kind != 'd' {
			return nil, in.pathError(op, f.name, eNOTDIR)
		}
		if en := fs.fault("getdents", eIO); en != 0 {
			fs.event(fsEvent{Op: "getdents", Path: f.path, Ino: f.ino.id, Err: errnoText[en]})
			return nil, in.pathError(op, f.name, en)
		}
		if f.order == nil {
			k := len(f.ino.entries)
			f.order = make([]int, k)
			for i := range f.order {
				f.order[i] = i
			}
			if fs.permute && k > 1 && k <= 4 {
				// choose a permutation (Lehmer code)
				avail := append([]int(nil), f.order...)
				for i := 0; i < k; i++ {
					j := in.Choose(len(avail))
					f.order[i] = avail[j]
					avail = append(avail[:j], avail[j+1:]...)
				}
			}
		}
		rem := len(f.order) - f.dirPos
		take := rem
		if n > 0 && n < rem {
			take = n
		}
		var out []*dirent
		for i := 0; i < take; i++ {
			idx := f.order[f.dirPos+i]
			if idx < len(f.ino.entries) {
				out = append(out, f.ino.entries[idx])
			}
		}
		f.dirPos += take
		fs.event(fsEvent{Op: "getdents", Path: f.path, Ino: f.ino.id, N: take})
		if n > 0 && take == 0 {
			return nil, in.eofIface()
		}
		return out, Iface{}
	}
	I["(*os.File).Readdirnames"] = func(in *Interp, fr *frame, a []Value) Value {
		ents, e := listDir(in, fileOf(a[0]), in.concInt(a[1]), "readdirent")
		sl := Slice{Obj: in.newArray(types.Typ[types.String], len(ents)), Len: len(ents), Cap: len(ents)}
		for i, d := range ents {
			sl.Obj.Slots[i] = d.name
		}
		if len(ents) == 0 && e.T != nil {
			sl = Slice{}
		}
		return Tuple{sl, e}
	}
	I["(*os.File).ReadDir"] = func(in *Interp, fr *frame, a []Value) Value {
		ents, e := listDir(in, fileOf(a[0]), in.concInt(a[1]), "readdirent")
		it := in.namedType("io/fs", "DirEntry")
		sl := Slice{Obj: in.newArray(it, len(ents)), Len: len(ents), Cap: len(ents)}
		for i, d := range ents {
			sl.Obj.Slots[i] = in.env.FS().dirEntry(d.name, d.ino)
		}
		if len(ents) == 0 && e.T != nil {
			sl = Slice{}
		}
		return Tuple{sl, e}
	}
	I["(*os.File).Readdir"] = func(in *Interp, fr *frame, a []Value) Value {
		ents, e := listDir(in, fileOf(a[0]), in.concInt(a[1]), "readdirent")
		it := in.namedType("io/fs", "FileInfo")
		sl := Slice{Obj: in.newArray(it, len(ents)), Len: len(ents), Cap: len(ents)}
		for i, d := range ents {
			sl.Obj.Slots[i] = in.env.FS().fileInfo(d.name, d.ino)
		}
		if len(ents) == 0 && e.T != nil {
			sl = Slice{}
		}
		return Tuple{sl, e}
	}
	I["os.ReadDir"] = func(in *Interp, fr *frame, a []Value) Value {
		fs := in.env.FS()
		f, e := fs.openFile(a[0].(Str), oRDONLY, 0)
		if e.T != nil {
			return Tuple{Slice{}, e}
		}
		vf := fileOf(f)
		ents, e2 := listDir(in, vf, -1, "readdirent")
		fs.event(fsEvent{Op: "close", Path: vf.path, Ino: vf.ino.id})
		if e2.T != nil {
			return Tuple{Slice{}, e2}
		}
		// sorted by file name (insertion sort; symbolic names fork on the comparison)
		sorted := append([]*dirent(nil), ents...)
		for i := 1; i < len(sorted); i++ {
			for j := i; j > 0 && in.Branch(in.strLess(sorted[j].name, sorted[j-1].name)); j-- {
				sorted[j], sorted[j-1] = sorted[j-1], sorted[j]
			}
		}
		it := in.namedType("io/fs", "DirEntry")
		sl := Slice{Obj: in.newArray(it, len(sorted)), Len: len(sorted), Cap: len(sorted)}
		for i, d := range sorted {
			sl.Obj.Slots[i] = fs.dirEntry(d.name, d.ino)
		}
		return Tuple{sl, Iface{}}
	}
	I["syscall.Errno.Error"] = func(in *Interp, fr *frame, a []Value) Value {
		t := a[0].(*Term)
		if t.IsConst() {
			if s, ok := errnoText[int(t.Val)]; ok {
				return in.strConst(s)
			}
		}
		return in.strConst("errno")
	}
	I["(syscall.Errno).Error"] = I["syscall.Errno.Error"]

	// ---- harness helpers (engine side) ----
	I["vp:vpTempDir"] = func(in *Interp, fr *frame, a []Value) Value {
		fs := in.env.FS()
		fs.tmpCount++
		was := fs.tracing
		fs.tracing = false
		vp := fs.lookupEntry(fs.root, in.strConst("vp"))
		if vp == nil {
			fs.mkdir(in.strConst("/vp"), 0755)
		}
		name := fmt.Sprintf("/vp/t%d", fs.tmpCount)
		fs.mkdir(in.strConst(name), 0700)
		fs.tracing = was
		return in.strConst(name)
	}
	I["vp:vpTraceBegin"] = func(in *Interp, fr *frame, a []Value) Value {
		fs := in.env.FS()
		fs.tracing = true
		fs.trace = nil
		fs.traceBase = fs.cloneTree(fs.root)
		return nil
	}
	I["vp:vpTraceEnd"] = func(in *Interp, fr *frame, a []Value) Value {
		in.env.FS().tracing = false
		return nil
	}
	I["vp:vpFaultArm"] = func(in *Interp, fr *frame, a []Value) Value {
		in.env.FS().faultArmed = true
		return nil
	}
	I["vp:vpFaultDisarm"] = func(in *Interp, fr *frame, a []Value) Value {
		in.env.FS().faultArmed = false
		return nil
	}
	// vpRunKillable(f): runs f as the operation of a process that may be killed (SIGKILL) before any
	// of its mutating file-system calls: one path per kill point plus the path on which f completes.
	// A kill unwinds nothing: no deferred call of the code under test runs, open files are simply
	// abandoned. Returns true when the process was killed.
	I["vp:vpRunKillable"] = func(in *Interp, fr *frame, a []Value) (ret Value) {
		fs := in.env.FS()
		fs.killArmed, fs.killFired = true, false
		depth := in.depth
		defer func() {
			fs.killArmed = false
			if r := recover(); r != nil {
				if _, ok := r.(crashKill); !ok {
					panic(r)
				}
				in.depth = depth
				ret = in.ts.True
			}
		}()
		in.callValue(a[0], nil, fr)
		return in.ts.False
	}
	// vpOtherDevice(dir): from now on dir is the mount point of another file system
	I["vp:vpOtherDevice"] = func(in *Interp, fr *frame, a []Value) Value {
		r := in.env.FS().resolve(a[0].(Str), true)
		if r.ino == nil || r.ino.kind != 'd' {
			panic(engineErr("vpOtherDevice: not a directory"))
		}
		r.ino.mount = true
		return in.ts.True
	}
	I["vp:vpFaultFired"] = func(in *Interp, fr *frame, a []Value) Value {
		return in.ts.Bool(in.env.FS().faultFired)
	}
	I["vp:vpFsPermute"] = func(in *Interp, fr *frame, a []Value) Value {
		in.env.FS().permute = a[0].(*Term).IsTrue()
		return nil
	}
	// vpFsConfined(base): every open/create/write/rename/unlink/mkdir event recorded since vpTraceBegin
	// concerns <base> itself, <base>/.tmp, an entry of <base>/.tmp, or <base>/<valid name>.user|.admin
	I["vp:vpFsConfined"] = func(in *Interp, fr *frame, a []Value) Value {
		fs := in.env.FS()
		was := fs.tracing
		fs.tracing = false
		defer func() { fs.tracing = was }()
		r := fs.resolve(a[0].(Str), true)
		if r.ino == nil {
			return in.ts.False
		}
		baseIno := r.ino
		tmpID := -1
		if e := fs.lookupEntry(baseIno, in.strConst(".tmp")); e != nil {
			tmpID = e.ino.id
		}
		ts := in.ts
		okName := func(n Str) *Term {
			// ".tmp" or <valid>.user / <valid>.admin
			if c, ok := n.Concrete(); ok && c == ".tmp" {
				return ts.True
			}
			var alts []*Term
			for _, ext := range []string{".user", ".admin"} {
				if len(n.B) > len(ext) {
					stem := Str{n.B[:len(n.B)-len(ext)]}
					alts = append(alts, ts.And(in.strEq(Str{n.B[len(n.B)-len(ext):]}, in.strConst(ext)), in.validUserName(stem)))
				}
			}
			return ts.Or(alts...)
		}
		var cs []*Term
		for _, ev := range fs.trace {
			switch ev.Op {
			case "open", "create", "write", "unlink", "mkdir", "rename", "truncate", "chmod", "symlink":
			default:
				continue
			}
			if ev.Ino == baseIno.id || ev.Ino == tmpID && ev.Op != "rename" {
				continue // the base directory or .tmp itself
			}
			dirOK := func(dir int, name Str) *Term {
				if dir == tmpID && tmpID >= 0 {
					return ts.True
				}
				if dir == baseIno.id {
					return okName(name)
				}
				return ts.False
			}
			switch ev.Op {
			case "write":
				// writes go through an fd: the open/create event was checked
				continue
			case "rename":
				cs = append(cs, dirOK(ev.Dir, ev.Name), dirOK(ev.Dir2, ev.Name2))
			default:
				if ev.Err != "" && ev.Ino == 0 {
					// failed before reaching an object: judge by where it pointed, if known
					if ev.Dir == 0 {
						continue
					}
				}
				cs = append(cs, dirOK(ev.Dir, ev.Name))
			}
		}
		return ts.And(cs...)
	}
	// vpFsSnapshot(dir) -> handle; vpFsSame(h1,h2) -> bool term (same names, kinds, contents)
	I["vp:vpFsSnapshot"] = func(in *Interp, fr *frame, a []Value) Value {
		fs := in.env.FS()
		was := fs.tracing
		fs.tracing = false
		armed := fs.faultArmed
		fs.faultArmed = false
		r := fs.resolve(a[0].(Str), true)
		fs.tracing = was
		fs.faultArmed = armed
		if r.errno != 0 || r.ino == nil {
			fs.snaps = append(fs.snaps, nil)
		} else {
			fs.snaps = append(fs.snaps, fs.cloneTree(r.ino))
		}
		return in.intConst(int64(len(fs.snaps) - 1))
	}
	// vpFsSnapshotNoTmp: like vpFsSnapshot but ignores the work area <dir>/.tmp
	I["vp:vpFsSnapshotNoTmp"] = func(in *Interp, fr *frame, a []Value) Value {
		fs := in.env.FS()
		was, armed := fs.tracing, fs.faultArmed
		fs.tracing, fs.faultArmed = false, false
		r := fs.resolve(a[0].(Str), true)
		fs.tracing, fs.faultArmed = was, armed
		if r.errno != 0 || r.ino == nil {
			fs.snaps = append(fs.snaps, nil)
		} else {
			c := fs.cloneTree(r.ino)
			var keep []*dirent
			for _, e := range c.entries {
				if n, ok := e.name.Concrete(); ok && n == ".tmp" {
					continue
				}
				keep = append(keep, e)
			}
			c.entries = keep
			fs.snaps = append(fs.snaps, c)
		}
		return in.intConst(int64(len(fs.snaps) - 1))
	}
	I["vp:vpFaultWhere"] = func(in *Interp, fr *frame, a []Value) Value {
		return in.strConst(in.env.FS().faultDesc)
	}
	I["vp:vpFsSame"] = func(in *Interp, fr *frame, a []Value) Value {
		fs := in.env.FS()
		x, y := fs.snaps[in.concInt(a[0])], fs.snaps[in.concInt(a[1])]
		return fs.sameTree(x, y)
	}
	I["vp:vpFsMutations"] = func(in *Interp, fr *frame, a []Value) Value {
		// number of successful mutating events recorded since vpTraceBegin
		n := 0
		for _, ev := range in.env.FS().trace {
			if ev.Err == "" {
				switch ev.Op {
				case "create", "write", "mkdir", "unlink", "rename", "truncate", "chmod", "symlink":
					n++
				}
			}
		}
		return in.intConst(int64(n))
	}
}

// validUserName is the schema grammar ^[A-Za-z0-9][-_.@A-Za-z0-9]*$ as a term (engine-side oracle).
func (in *Interp) validUserName(n Str) *Term {
	ts := in.ts
	if len(n.B) == 0 {
		return ts.False
	}
	alnum := func(c *Term) *Term {
		rng := func(lo, hi byte) *Term { return ts.And(ts.Ule(in.byteConst(lo), c), ts.Ule(c, in.byteConst(hi))) }
		return ts.Or(rng('a', 'z'), rng('A', 'Z'), rng('0', '9'))
	}
	cs := []*Term{alnum(n.B[0])}
	for _, c := range n.B[1:] {
		cs = append(cs, ts.Or(alnum(c), ts.Eq(c, in.byteConst('-')), ts.Eq(c, in.byteConst('_')), ts.Eq(c, in.byteConst('.')), ts.Eq(c, in.byteConst('@'))))
	}
	return ts.And(cs...)
}

func (in *Interp) lookupMethodByName(t types.Type, name string) *ssa.Function {
	ms := in.P.Prog.MethodSets.MethodSet(t)
	for i := 0; i < ms.Len(); i++ {
		if ms.At(i).Obj().Name() == name {
			return in.P.Prog.MethodValue(ms.At(i))
		}
	}
	panic(engineErr("method %s not found on %v", name, t))
}

func (in *Interp) eofIface() Iface {
	g := in.P.Pkgs["io"].Var("EOF")
	return in.load(Ptr{Obj: in.global(g)}, g.Type().(*types.Pointer).Elem()).(Iface)
}

func (in *Interp) isEOF(e Iface) bool {
	eof := in.eofIface()
	return in.Branch(in.equalIfaceSafe(e, eof))
}

func (fs *vfs) cloneTree(n *inode) *inode {
	c := &inode{id: n.id, kind: n.kind, data: n.data, perm: n.perm, target: n.target}
	for _, e := range n.entries {
		c.entries = append(c.entries, &dirent{name: e.name, ino: fs.cloneTree(e.ino)})
	}
	return c
}

// sameTree builds the condition "a and b have the same entries with the same kinds and contents".
func (fs *vfs) sameTree(a, b *inode) *Term {
	in := fs.in
	ts := in.ts
	if a == nil || b == nil {
		return ts.Bool(a == nil && b == nil)
	}
	if a.kind != b.kind {
		return ts.False
	}
	switch a.kind {
	case 'f':
		return in.strEq(Str{a.data}, Str{b.data})
	case 'l':
		return in.strEq(a.target, b.target)
	case 'd':
		if len(a.entries) != len(b.entries) {
			return ts.False
		}
		cs := []*Term{}
		used := make([]bool, len(b.entries))
		for _, ea := range a.entries {
			found := false
			for j, eb := range b.entries {
				if used[j] {
					continue
				}
				if in.Branch(in.strEq(ea.name, eb.name)) {
					used[j] = true
					found = true
					cs = append(cs, fs.sameTree(ea.ino, eb.ino))
					break
				}
			}
			if !found {
				return ts.False
			}
		}
		return ts.And(cs...)
	}
	return ts.True
}
