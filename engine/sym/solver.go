package sym

import (
	"bufio"
	"fmt"
	"io"
	"os"
	"os/exec"
	"strconv"
	"strings"
	"sync/atomic"
	"time"
)

type SatResult int

const (
	Unsat SatResult = iota
	Sat
	Unknown
)

func (r SatResult) String() string { return [...]string{"unsat", "sat", "unknown"}[r] }

// Solver drives one long-lived `z3 -in` process.
type Solver struct {
	cmd       *exec.Cmd
	in        io.WriteCloser
	out       *bufio.Reader
	pr        *Printer
	buf       strings.Builder
	scopes    []int // printer trail marks per push level
	Queries   int
	NSat      int
	NUnsat    int
	NUnknown  int
	NErrors   int
	Time      time.Duration
	TimeoutMs int
	bin       string
	log       io.Writer
	LastQuery string // SMT text accumulated since path start (for dumps)
	keepText  bool
	text      strings.Builder
	xlog      *os.File // cross-solver session log (text sent + "; RESULT r" after each check)
	xbytes    int
	xcap      int
	xcmds     int
}

// XLogDir, when set, makes every solver process log its session (up to XLogCap bytes, at most
// XLogMax sessions per run) for re-discharge by other solvers (CrossCheck).
var XLogDir string
var XLogCap = 3 << 20
var XLogMax int32 = 48
var xlogN int32
var xlogUnit string

// XLogUnit starts the per-unit session count (called by the runner before each unit).
func XLogUnit(name string) { xlogUnit = name; atomic.StoreInt32(&xlogN, 0) }

func NewSolver(bin string, timeoutMs int) (*Solver, error) {
	s := &Solver{bin: bin, TimeoutMs: timeoutMs}
	if err := s.start(); err != nil {
		return nil, err
	}
	return s, nil
}

func (s *Solver) start() error {
	args := []string{"-in"}
	if strings.Contains(s.bin, "cvc5") {
		args = []string{"--incremental", "--lang=smt2", "--produce-models"}
	}
	s.cmd = exec.Command(s.bin, args...)
	in, err := s.cmd.StdinPipe()
	if err != nil {
		return err
	}
	out, err := s.cmd.StdoutPipe()
	if err != nil {
		return err
	}
	s.cmd.Stderr = os.Stderr
	if err := s.cmd.Start(); err != nil {
		return err
	}
	s.in = in
	s.out = bufio.NewReaderSize(out, 1<<16)
	if lf := os.Getenv("GOSYM_SOLVERLOG"); lf != "" && s.log == nil {
		f, _ := os.OpenFile(lf, os.O_CREATE|os.O_WRONLY|os.O_APPEND, 0644)
		s.log = f
	}
	s.pr = &Printer{defined: map[int]bool{}, out: &s.buf}
	s.scopes = nil
	if XLogDir != "" && s.xlog == nil {
		if n := atomic.AddInt32(&xlogN, 1); n <= XLogMax {
			s.xlog, _ = os.Create(fmt.Sprintf("%s/session-%s-%04d.smt2", XLogDir, xlogUnit, n))
			s.xcap = XLogCap
		}
	}
	s.send("(set-option :produce-models true)\n")
	if !strings.Contains(s.bin, "cvc5") {
		s.send(fmt.Sprintf("(set-option :timeout %d)\n", s.TimeoutMs))
	} else {
		s.send("(set-logic ALL)\n")
	}
	return nil
}

func (s *Solver) Close() {
	if s.xlog != nil {
		s.xlog.Close()
		s.xlog = nil
	}
	if s.cmd != nil {
		s.in.Close()
		s.cmd.Process.Kill()
		s.cmd.Wait()
		s.cmd = nil
	}
}

func (s *Solver) send(txt string) {
	if s.keepText {
		s.text.WriteString(txt)
	}
	if s.log != nil {
		io.WriteString(s.log, txt)
	}
	if s.xlog != nil {
		io.WriteString(s.xlog, txt)
		s.xbytes += len(txt)
	}
	io.WriteString(s.in, txt)
}

func (s *Solver) xresult(r SatResult) {
	if s.xlog == nil {
		return
	}
	fmt.Fprintf(s.xlog, "; RESULT %s\n", r)
	if s.xbytes > s.xcap {
		s.xlog.Close()
		s.xlog = nil
	}
}

// flushDefs sends pending definitions
func (s *Solver) flushDefs() {
	if s.buf.Len() > 0 {
		s.send(s.buf.String())
		s.buf.Reset()
	}
}

func (s *Solver) emit(t *Term) string { return s.pr.Emit(t) }

func (s *Solver) Push() {
	s.flushDefs()
	s.send("(push 1)\n")
	s.scopes = append(s.scopes, len(s.pr.trail))
}

func (s *Solver) Pop() {
	s.flushDefs()
	s.send("(pop 1)\n")
	mark := s.scopes[len(s.scopes)-1]
	for _, id := range s.pr.trail[mark:] {
		delete(s.pr.defined, id)
	}
	s.pr.trail = s.pr.trail[:mark]
	s.scopes = s.scopes[:len(s.scopes)-1]
}

// Depth returns the number of open push scopes.
func (s *Solver) Depth() int { return len(s.scopes) }

func (s *Solver) Assert(t *Term) {
	ref := s.emit(t)
	s.flushDefs()
	s.send("(assert " + ref + ")\n")
}

func (s *Solver) readLine() (string, error) {
	l, err := s.out.ReadString('\n')
	return strings.TrimSpace(l), err
}

// Check runs (check-sat). Any error line is reported as Unknown with NErrors++.
func (s *Solver) Check() SatResult { return s.checkCmd("(check-sat)\n") }

func (s *Solver) checkCmd(cmd string) SatResult {
	s.flushDefs()
	t0 := time.Now()
	s.send(cmd)
	s.Queries++
	var res SatResult = Unknown
	for {
		l, err := s.readLine()
		if err != nil {
			s.NErrors++
			res = Unknown
			break
		}
		if l == "" {
			continue
		}
		switch {
		case l == "sat":
			res = Sat
		case l == "unsat":
			res = Unsat
		case l == "unknown" || l == "timeout":
			res = Unknown
		case strings.HasPrefix(l, "(error"):
			s.NErrors++
			fmt.Fprintf(os.Stderr, "solver error: %s\n", l)
			// keep reading: z3 still prints a result for check-sat
			continue
		default:
			continue
		}
		break
	}
	dt := time.Since(t0)
	s.Time += dt
	if dt > 2*time.Second && os.Getenv("GOSYM_PROGRESS") != "" {
		fmt.Fprintf(os.Stderr, "slow query %.1fs result=%v cmd=%s", dt.Seconds(), res, cmd)
	}
	s.xresult(res)
	switch res {
	case Sat:
		s.NSat++
	case Unsat:
		s.NUnsat++
	default:
		s.NUnknown++
	}
	return res
}

// CheckWith checks satisfiability of the current assertions plus extra (not kept).
func (s *Solver) CheckWith(extra *Term) SatResult {
	if extra.Op == OpConst {
		if extra.Val == 0 {
			return Unsat
		}
		return s.Check()
	}
	ref := s.emit(extra)
	return s.checkCmd("(check-sat-assuming (" + ref + "))\n")
}

// CheckAssuming checks the conjunction of lits (nothing is asserted permanently).
func (s *Solver) CheckAssuming(lits []*Term) SatResult {
	refs := make([]string, 0, len(lits))
	for _, l := range lits {
		if l.Op == OpConst {
			if l.Val == 0 {
				return Unsat
			}
			continue
		}
		refs = append(refs, s.emit(l))
	}
	if len(refs) == 0 {
		return s.checkCmd("(check-sat)\n")
	}
	return s.checkCmd("(check-sat-assuming (" + strings.Join(refs, " ") + "))\n")
}

// readSexp reads one balanced s-expression from the solver output.
func (s *Solver) readSexp() (string, error) {
	var sb strings.Builder
	depth := 0
	started := false
	for {
		b, err := s.out.ReadByte()
		if err != nil {
			return sb.String(), err
		}
		if !started {
			if b == '(' {
				started = true
				depth = 1
				sb.WriteByte(b)
			}
			continue
		}
		sb.WriteByte(b)
		if b == '(' {
			depth++
		} else if b == ')' {
			depth--
			if depth == 0 {
				return sb.String(), nil
			}
		}
	}
}

// GetValues returns model values for the given terms (after a Sat check in the same scope).
func (s *Solver) GetValues(ts []*Term) ([]uint64, error) {
	if len(ts) == 0 {
		return nil, nil
	}
	refs := make([]string, len(ts))
	for i, t := range ts {
		refs[i] = s.emit(t)
	}
	s.flushDefs()
	s.send("(get-value (" + strings.Join(refs, " ") + "))\n")
	sx, err := s.readSexp()
	if err != nil {
		return nil, err
	}
	if strings.HasPrefix(sx, "(error") {
		s.NErrors++
		return nil, fmt.Errorf("solver: %s", sx)
	}
	// parse ((ref val) (ref val) ...)
	vals := make([]uint64, 0, len(ts))
	toks := tokenize(sx)
	// tokens: ( ( ref val ) ( ref val ) )
	i := 1
	for i < len(toks)-1 {
		if toks[i] != "(" {
			return nil, fmt.Errorf("get-value parse: %s", sx)
		}
		// skip ref (may be a nested expr for consts)
		j := i + 1
		j = skipExpr(toks, j)
		// value
		vstart := j
		j = skipExpr(toks, j)
		v, err := parseValue(toks[vstart:j])
		if err != nil {
			return nil, fmt.Errorf("get-value parse %v: %s", err, sx)
		}
		vals = append(vals, v)
		if toks[j] != ")" {
			return nil, fmt.Errorf("get-value parse: %s", sx)
		}
		i = j + 1
	}
	if len(vals) != len(ts) {
		return nil, fmt.Errorf("get-value count mismatch: %s", sx)
	}
	return vals, nil
}

func tokenize(s string) []string {
	var toks []string
	i := 0
	for i < len(s) {
		c := s[i]
		switch {
		case c == '(' || c == ')':
			toks = append(toks, string(c))
			i++
		case c == ' ' || c == '\n' || c == '\t' || c == '\r':
			i++
		default:
			j := i
			for j < len(s) && !strings.ContainsRune("() \n\t\r", rune(s[j])) {
				j++
			}
			toks = append(toks, s[i:j])
			i = j
		}
	}
	return toks
}

func skipExpr(toks []string, i int) int {
	if toks[i] != "(" {
		return i + 1
	}
	d := 0
	for {
		if toks[i] == "(" {
			d++
		} else if toks[i] == ")" {
			d--
			if d == 0 {
				return i + 1
			}
		}
		i++
	}
}

func parseValue(toks []string) (uint64, error) {
	if len(toks) == 1 {
		t := toks[0]
		switch {
		case t == "true":
			return 1, nil
		case t == "false":
			return 0, nil
		case strings.HasPrefix(t, "#x"):
			if len(t) > 18 {
				t = "#x" + t[len(t)-16:]
			}
			return strconv.ParseUint(t[2:], 16, 64)
		case strings.HasPrefix(t, "#b"):
			if len(t) > 66 {
				t = "#b" + t[len(t)-64:]
			}
			return strconv.ParseUint(t[2:], 2, 64)
		}
		return 0, fmt.Errorf("unknown value token %q", t)
	}
	// (_ bvN w)
	if len(toks) == 5 && toks[1] == "_" && strings.HasPrefix(toks[2], "bv") {
		return strconv.ParseUint(toks[2][2:], 10, 64)
	}
	// (fp #b. #b... #b...) : assemble bits
	if len(toks) == 6 && toks[1] == "fp" {
		s, _ := parseValue(toks[2:3])
		e, _ := parseValue(toks[3:4])
		m, _ := parseValue(toks[4:5])
		return s<<63 | e<<52 | m, nil
	}
	return 0, fmt.Errorf("unknown value %v", toks)
}
