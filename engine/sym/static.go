package sym

import (
	"fmt"
	"go/types"
	"strings"

	"golang.org/x/tools/go/ssa"
)

// SingleWriterCheck: the reduction behind C11 (all store-library access is serialised by the
// dispatcher goroutine) as a static check on the SSA of the agent package: no goroutine other
// than the one running dispatchRequests may (transitively, through static calls and closures)
// reach a function of the store library, and the store library is only called from methods of
// *store and NewStore.
func SingleWriterCheck(p *Program, agentPkg, storePkg string) (violations []string, examined int) {
	pkg := p.Pkgs[agentPkg]
	if pkg == nil {
		return []string{"agent package not loaded"}, 0
	}
	isHarness := func(fn *ssa.Function) bool {
		if fn == nil {
			return true
		}
		pos := fn.Prog.Fset.Position(fn.Pos())
		return strings.Contains(pos.Filename, "zz_vp_") || strings.HasPrefix(fn.Name(), "vp") || strings.HasPrefix(fn.Name(), "VP_")
	}
	inStore := func(fn *ssa.Function) bool {
		return fn != nil && fn.Pkg != nil && fn.Pkg.Pkg.Path() == storePkg
	}
	// static successors: direct calls, deferred calls, closures created, go statements are handled separately
	succ := func(fn *ssa.Function) []*ssa.Function {
		var out []*ssa.Function
		for _, b := range fn.Blocks {
			for _, ins := range b.Instrs {
				switch x := ins.(type) {
				case *ssa.Call:
					if c := x.Call.StaticCallee(); c != nil {
						out = append(out, c)
					}
				case *ssa.Defer:
					if c := x.Call.StaticCallee(); c != nil {
						out = append(out, c)
					}
				case *ssa.MakeClosure:
					if c, ok := x.Fn.(*ssa.Function); ok {
						out = append(out, c)
					}
				}
			}
		}
		return out
	}
	reachStore := func(root *ssa.Function) (string, bool) {
		seen := map[*ssa.Function]bool{}
		st := []*ssa.Function{root}
		parent := map[*ssa.Function]*ssa.Function{}
		for len(st) > 0 {
			f := st[len(st)-1]
			st = st[:len(st)-1]
			if f == nil || seen[f] {
				continue
			}
			seen[f] = true
			if inStore(f) {
				chain := f.String()
				for q := parent[f]; q != nil; q = parent[q] {
					chain = q.String() + " -> " + chain
				}
				return chain, true
			}
			if f.Pkg == nil || f.Pkg != pkg {
				continue // only follow the agent package itself
			}
			for _, c := range succ(f) {
				if !seen[c] {
					if _, ok := parent[c]; !ok {
						parent[c] = f
					}
					st = append(st, c)
				}
			}
		}
		return "", false
	}
	var all []*ssa.Function
	for _, m := range pkg.Members {
		if fn, ok := m.(*ssa.Function); ok {
			all = append(all, fn)
		}
	}
	for _, t := range pkg.Members {
		if ty, ok := t.(*ssa.Type); ok {
			for _, recv := range []bool{false, true} {
				var ms = p.Prog.MethodSets.MethodSet(ty.Type())
				if recv {
					ms = p.Prog.MethodSets.MethodSet(typesPointer(ty.Type()))
				}
				for i := 0; i < ms.Len(); i++ {
					if fn := p.Prog.MethodValue(ms.At(i)); fn != nil && fn.Pkg == pkg {
						all = append(all, fn)
					}
				}
			}
		}
	}
	// include anonymous functions
	seenFn := map[*ssa.Function]bool{}
	var withAnon []*ssa.Function
	var addFn func(f *ssa.Function)
	addFn = func(f *ssa.Function) {
		if f == nil || seenFn[f] {
			return
		}
		seenFn[f] = true
		withAnon = append(withAnon, f)
		for _, a := range f.AnonFuncs {
			addFn(a)
		}
	}
	for _, f := range all {
		addFn(f)
	}
	for _, fn := range withAnon {
		if isHarness(fn) {
			continue
		}
		examined++
		for _, b := range fn.Blocks {
			for _, ins := range b.Instrs {
				g, ok := ins.(*ssa.Go)
				if !ok {
					continue
				}
				var callee *ssa.Function
				if c := g.Call.StaticCallee(); c != nil {
					callee = c
				} else if mc, ok := g.Call.Value.(*ssa.MakeClosure); ok {
					callee, _ = mc.Fn.(*ssa.Function)
				}
				if callee == nil {
					continue
				}
				if callee.Name() == "dispatchRequests" {
					continue
				}
				if chain, bad := reachStore(callee); bad {
					violations = append(violations, fmt.Sprintf("goroutine started in %s reaches the store library outside the dispatcher: %s", fn, chain))
				}
			}
		}
		// direct calls into the store library only from *store methods / NewStore
		for _, c := range succ(fn) {
			if inStore(c) && c.Signature.Recv() != nil {
				ok := fn.Name() == "NewStore" || (fn.Signature.Recv() != nil && strings.HasSuffix(fn.Signature.Recv().Type().String(), ".store"))
				if !ok && fn.Parent() != nil {
					// closures inside *store methods
					pf := fn.Parent()
					ok = pf.Signature.Recv() != nil && strings.HasSuffix(pf.Signature.Recv().Type().String(), ".store")
				}
				if !ok {
					violations = append(violations, fmt.Sprintf("%s calls %s directly (store library access outside the agent's store object)", fn, c))
				}
			}
		}
	}
	return violations, examined
}

func typesPointer(t types.Type) types.Type { return types.NewPointer(t) }
