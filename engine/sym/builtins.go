package sym

import (
	"go/types"

	"golang.org/x/tools/go/ssa"
)

func (in *Interp) builtin(b *ssa.Builtin, args []Value, fr *frame, cc *ssa.CallCommon, resT types.Type) Value {
	ts := in.ts
	switch b.Name() {
	case "len":
		switch x := args[0].(type) {
		case Str:
			return in.intConst(int64(len(x.B)))
		case Slice:
			return in.intConst(int64(x.Len))
		case *MapObj:
			if x == nil {
				return in.intConst(0)
			}
			return in.intConst(int64(len(x.Entries)))
		case *ChanObj:
			if x == nil {
				return in.intConst(0)
			}
			return in.intConst(int64(len(x.buf)))
		case ArrayV:
			return in.intConst(int64(len(x)))
		case Ptr: // *array
			at := under(cc.Args[0].Type().(*types.Pointer).Elem()).(*types.Array)
			return in.intConst(at.Len())
		}
	case "cap":
		switch x := args[0].(type) {
		case Slice:
			return in.intConst(int64(x.Cap))
		case *ChanObj:
			if x == nil {
				return in.intConst(0)
			}
			return in.intConst(int64(x.cap))
		case ArrayV:
			return in.intConst(int64(len(x)))
		case Ptr:
			at := under(cc.Args[0].Type().(*types.Pointer).Elem()).(*types.Array)
			return in.intConst(at.Len())
		}
	case "append":
		s := args[0].(Slice)
		var et types.Type
		if resT != nil {
			et = under(resT).(*types.Slice).Elem()
		} else {
			panic(engineErr("deferred append"))
		}
		es := in.slotCount(et)
		var add []Value
		switch y := args[1].(type) {
		case Slice:
			add = make([]Value, y.Len*es)
			if y.Len > 0 {
				copy(add, y.Obj.Slots[y.Off:y.Off+y.Len*es])
			}
		case Str:
			add = make([]Value, len(y.B))
			for i, t := range y.B {
				add[i] = t
			}
		default:
			panic(engineErr("append %T", args[1]))
		}
		n := len(add) / es
		if n == 0 {
			return s
		}
		if s.Len+n <= s.Cap {
			for i, v := range add {
				in.setSlot(s.Obj, s.Off+s.Len*es+i, v)
			}
			return Slice{Obj: s.Obj, Off: s.Off, Len: s.Len + n, Cap: s.Cap}
		}
		nc := s.Cap * 2
		if nc < s.Len+n {
			nc = s.Len + n
		}
		if nc < 8 && es == 1 {
			nc = 8
		}
		o := in.newArray(et, nc)
		if s.Len > 0 {
			copy(o.Slots, s.Obj.Slots[s.Off:s.Off+s.Len*es])
		}
		copy(o.Slots[s.Len*es:], add)
		return Slice{Obj: o, Off: 0, Len: s.Len + n, Cap: nc}
	case "copy":
		d := args[0].(Slice)
		switch y := args[1].(type) {
		case Slice:
			n := d.Len
			if y.Len < n {
				n = y.Len
			}
			if n == 0 {
				return in.intConst(0)
			}
			es := 1
			if cc != nil {
				es = in.slotCount(under(cc.Args[0].Type()).(*types.Slice).Elem())
			}
			tmp := make([]Value, n*es)
			copy(tmp, y.Obj.Slots[y.Off:y.Off+n*es])
			for i, v := range tmp {
				in.setSlot(d.Obj, d.Off+i, v)
			}
			return in.intConst(int64(n))
		case Str:
			n := d.Len
			if len(y.B) < n {
				n = len(y.B)
			}
			for i := 0; i < n; i++ {
				in.setSlot(d.Obj, d.Off+i, y.B[i])
			}
			return in.intConst(int64(n))
		}
	case "delete":
		m := args[0].(*MapObj)
		var kt types.Type
		if m != nil {
			kt = m.KT
		}
		if cc != nil {
			kt = under(cc.Args[0].Type()).(*types.Map).Key()
		}
		in.mapDelete(m, args[1], kt)
		return nil
	case "clear":
		switch x := args[0].(type) {
		case *MapObj:
			if x != nil {
				in.mapTouch(x)
				x.Entries = nil
			}
		case Slice:
			et := under(cc.Args[0].Type()).(*types.Slice).Elem()
			es := in.slotCount(et)
			for i := 0; i < x.Len; i++ {
				in.storeAt(x.Obj, x.Off+i*es, et, in.zero(et))
			}
		}
		return nil
	case "close":
		in.chanClose(args[0].(*ChanObj))
		return nil
	case "print", "println":
		return nil
	case "panic":
		panic(goPanic{args[0]})
	case "recover":
		return in.doRecover(fr)
	case "min", "max":
		isMin := b.Name() == "min"
		res := args[0]
		t := resT
		for _, a := range args[1:] {
			switch x := res.(type) {
			case *Term:
				y := a.(*Term)
				var lt *Term
				if in.isSigned(t) {
					lt = ts.Slt(y, x)
				} else {
					lt = ts.Ult(y, x)
				}
				if !isMin {
					lt = ts.Not(ts.Or(lt, ts.Eq(x, y)))
				}
				res = ts.Ite(lt, y, x)
			case float64:
				y := a.(float64)
				if isMin == (y < x) {
					res = y
				}
			default:
				panic(engineErr("min/max on %T", res))
			}
		}
		return res
	case "ssa:wrapnilchk":
		p := args[0].(Ptr)
		if p.Obj == nil {
			panic(in.goPanicStr("value method called using nil pointer"))
		}
		return p
	case "String": // unsafe.String(ptr, len)
		p := args[0].(Ptr)
		n := in.concInt(args[1])
		if n == 0 {
			return Str{}
		}
		out := make([]*Term, n)
		for i := 0; i < n; i++ {
			out[i] = p.Obj.Slots[p.Off+i].(*Term)
		}
		if !p.Obj.Frozen {
			p.Obj.aliases = append(p.Obj.aliases, strAlias{p.Off, out})
		}
		return Str{out}
	case "StringData":
		s := args[0].(Str)
		if len(s.B) == 0 {
			return Ptr{}
		}
		sl := in.newByteSlice(s.B)
		return Ptr{Obj: sl.Obj}
	case "SliceData":
		s := args[0].(Slice)
		if s.Obj == nil {
			return Ptr{}
		}
		return Ptr{Obj: s.Obj, Off: s.Off}
	case "Slice": // unsafe.Slice(ptr, len)
		p := args[0].(Ptr)
		n := in.concInt(args[1])
		if p.Obj == nil {
			return Slice{}
		}
		return Slice{Obj: p.Obj, Off: p.Off, Len: n, Cap: n}
	case "Add":
		p := args[0].(Ptr)
		n := in.concInt(args[1])
		return Ptr{Obj: p.Obj, Off: p.Off + n}
	}
	panic(engineErr("unsupported builtin %s (%T)", b.Name(), args))
}

// doRecover implements recover(): fr is the frame of the deferred function.
func (in *Interp) doRecover(fr *frame) Value {
	if fr != nil && fr.caller != nil && fr.caller.panicking {
		c := fr.caller
		c.panicking = false
		p := c.panicVal
		c.panicVal = nil
		if gp, ok := p.(goPanic); ok {
			if i, ok := gp.v.(Iface); ok {
				return i
			}
			return Iface{T: types.Typ[types.String], V: in.strConst("panic")}
		}
	}
	return Iface{}
}
