package sym

import (
	"fmt"
	"go/constant"
	"go/token"
	"go/types"
	"math"
	"os"
	"sort"
	"strings"
	"sync"

	"golang.org/x/tools/go/ssa"
)

// ---------------------------------------------------------------------------
// Program: shared, read-only after Load

type Intrinsic func(in *Interp, fr *frame, args []Value) Value

type fnInfo struct {
	idx map[ssa.Value]int
	n   int
}

type Program struct {
	Prog      *ssa.Program
	Pkgs      map[string]*ssa.Package // by import path
	RepoMod   string                  // module path prefix of the code under test
	fnInfos   sync.Map                // *ssa.Function -> *fnInfo
	Intr      map[string]Intrinsic
	InitPkgs  []string // packages whose init is executed (in order)
	covMu     sync.Mutex
	Covered   map[string]int // repo functions executed -> instruction count
	coverSeen sync.Map       // unit/tag already witnessed
}

func (p *Program) info(fn *ssa.Function) *fnInfo {
	if v, ok := p.fnInfos.Load(fn); ok {
		return v.(*fnInfo)
	}
	fi := &fnInfo{idx: map[ssa.Value]int{}}
	add := func(v ssa.Value) {
		fi.idx[v] = fi.n
		fi.n++
	}
	for _, pa := range fn.Params {
		add(pa)
	}
	for _, fv := range fn.FreeVars {
		add(fv)
	}
	for _, b := range fn.Blocks {
		for _, ins := range b.Instrs {
			if v, ok := ins.(ssa.Value); ok {
				add(v)
			}
		}
	}
	v, _ := p.fnInfos.LoadOrStore(fn, fi)
	return v.(*fnInfo)
}

// ---------------------------------------------------------------------------
// Decisions and path state

type Decision struct {
	K byte  // 'B' branch, 'V' value, 'N' not-value, 'C' choose
	V int64 // branch: 1/0; value; choose index
}

type pathEnd struct {
	reason string // "assume", "infeasible", "budget", "engine", "wedge", "killed", "done"
	msg    string
}

type goPanic struct{ v Value } // a Go-level panic travelling up the host stack
type crashKill struct{}        // the simulated process is killed: unwinds the host stack up to vpRunKillable without running Go defers

type NondetVar struct {
	Label string
	Kind  string // "byte","bool","int","str","bytes","choice"
	Terms []*Term
}

type Violation struct {
	Unit     string
	AssertID string
	Msg      string
	Nondet   []NondetValue
	Decs     []Decision
	Extra    map[string]interface{}
}

type NondetValue struct {
	Label string      `json:"label"`
	Kind  string      `json:"kind"`
	Value interface{} `json:"value"`
}

type PathResult struct {
	End        string
	Msg        string
	Asserts    int // solver-discharged
	Folded     int // discharged by simplifier
	Violations []Violation
	Covers     map[string][]NondetValue
	Incomplete []string
	Children   [][]Decision
	Steps      int
	Decs       int
	Trace      interface{}
}

type Interp struct {
	P         *Program
	convFrame *frame // frame of the conversion / range instruction being executed (for calls into unicode/utf8)
	ts        *TermStore
	sol       *Solver
	globals   map[*ssa.Global]*Obj
	bytes     [256]*Term
	strCache  map[string]Str
	slotCache map[*types.Struct]int
	nextObj   int
	undo      []undoRec
	undoOn    bool
	cfg       *UnitConfig

	// per-path
	prefix       []Decision
	taken        []Decision
	di           int
	pc           []pcConj
	steps        int
	nvar         int
	nondet       []NondetVar
	res          *PathResult
	unit         string
	ufCalls      map[string][]ufCall
	env          *envState // environment models (vfs, clock, ...) per path
	sched        *scheduler
	depth        int
	onceUndo     []*Obj
	model        map[int]uint64
	evalMemo     map[int]uint64
	pathVars     []*Term
	pcSet        map[int]bool
	ufParent     map[int]int
	compInvalid  map[int]bool
	varByID      map[int]*Term
	varsMemo     map[int][]*Term
	secScaled    map[int]*Term // Duration terms that are seconds*1e9 + ns without overflow -> the seconds term
	nsScaled     map[int]*Term // ... -> the nanoseconds term (0 <= ns < 1e9)
	InitProblems []string
	writeMark    int // object ids below this were allocated before vpWriteSetBegin
	sharedWrites int
	decProv      map[string]*Term
}

type UnitConfig struct {
	MaxSteps         int
	MaxDecisions     int
	QueryTimeout     int
	Debug            bool
	TraceCalls       bool
	WedgeIsViolation bool
}

func NewInterp(p *Program, sol *Solver, cfg *UnitConfig) *Interp {
	in := &Interp{P: p, ts: NewTermStore(), sol: sol, globals: map[*ssa.Global]*Obj{}, strCache: map[string]Str{}, varsMemo: map[int][]*Term{},
		slotCache: map[*types.Struct]int{}, cfg: cfg}
	for i := 0; i < 256; i++ {
		in.bytes[i] = in.ts.Const(8, uint64(i))
	}
	return in
}

// RunInits executes the init functions of the configured packages once, then freezes the heap.
func (in *Interp) RunInits() (err error) {
	defer func() {
		if r := recover(); r != nil {
			err = fmt.Errorf("init failed: %v", describePanic(r))
		}
	}()
	in.res = &PathResult{Covers: map[string][]NondetValue{}}
	in.decProv = map[string]*Term{}
	in.ufCalls = map[string][]ufCall{}
	in.resetPC()
	in.secScaled = map[int]*Term{}
	in.nsScaled = map[int]*Term{}
	in.env = newEnvState(in)
	in.sched = newScheduler(in)
	in.sched.runMain(func() {})
	for _, path := range in.P.InitPkgs {
		pkg := in.P.Pkgs[path]
		if pkg == nil {
			continue
		}
		in.steps = 0
		// initialisers run once and may be expensive (a case-insensitive regexp compiles its
		// character classes through the Unicode folding tables): a much larger step budget
		saved := in.cfg.MaxSteps
		in.cfg.MaxSteps = saved * 10
		in.initOne(pkg)
		in.cfg.MaxSteps = saved
	}
	// freeze everything reachable from globals
	seen := map[*Obj]bool{}
	seenM := map[*MapObj]bool{}
	for _, o := range in.globals {
		in.freeze(o, seen, seenM)
	}
	in.undoOn = true
	return nil
}

// initOne runs one package initialiser; an unsupported construct inside it is tolerated
// (the remaining globals of that package stay zero) and reported in debug mode.
func (in *Interp) initOne(pkg *ssa.Package) {
	defer func() {
		if r := recover(); r != nil {
			if _, ok := r.(engineError); ok || true {
				in.InitProblems = append(in.InitProblems, pkg.Pkg.Path()+": "+describePanic(r))
				return
			}
		}
	}()
	in.call(pkg.Func("init"), nil, nil, nil)
}

func (in *Interp) freeze(o *Obj, seen map[*Obj]bool, seenM map[*MapObj]bool) {
	if o == nil || seen[o] {
		return
	}
	seen[o] = true
	o.Frozen = true
	for _, s := range o.Slots {
		in.freezeVal(s, seen, seenM)
	}
}

func (in *Interp) freezeVal(v Value, seen map[*Obj]bool, seenM map[*MapObj]bool) {
	switch x := v.(type) {
	case Ptr:
		in.freeze(x.Obj, seen, seenM)
	case Slice:
		in.freeze(x.Obj, seen, seenM)
	case StructV:
		for _, e := range x {
			in.freezeVal(e, seen, seenM)
		}
	case ArrayV:
		for _, e := range x {
			in.freezeVal(e, seen, seenM)
		}
	case Iface:
		in.freezeVal(x.V, seen, seenM)
	case *MapObj:
		if x != nil && !seenM[x] {
			seenM[x] = true
			x.Frozen = true
			for _, e := range x.Entries {
				in.freezeVal(e.K, seen, seenM)
				in.freezeVal(e.V, seen, seenM)
			}
		}
	case *Closure:
		if x != nil {
			for _, e := range x.Env {
				in.freezeVal(e, seen, seenM)
			}
		}
	}
}

func describePanic(r interface{}) string {
	switch x := r.(type) {
	case pathEnd:
		return x.reason + ": " + x.msg
	case goPanic:
		return "go panic: " + showValue(x.v)
	case engineError:
		return "engine: " + x.msg
	}
	return fmt.Sprint(r)
}

func showValue(v Value) string {
	switch x := v.(type) {
	case Iface:
		if x.T == nil {
			return "<nil>"
		}
		return fmt.Sprintf("%v(%s)", x.T, showValue(x.V))
	case Str:
		return fmt.Sprintf("%q", x.Show())
	case *Term:
		return x.String()
	case Ptr:
		if x.Obj == nil {
			return "nil"
		}
		if x.Obj.Typ != nil && len(x.Obj.Slots) > 0 {
			if s, ok := x.Obj.Slots[0].(Str); ok {
				return "&{" + fmt.Sprintf("%q", s.Show()) + "...}"
			}
		}
		return fmt.Sprintf("&obj%d+%d", x.Obj.ID, x.Off)
	}
	return fmt.Sprintf("%T", v)
}

// RunPath executes fn following prefix; returns the result.
func (in *Interp) RunPath(unit string, fn *ssa.Function, prefix []Decision) (res *PathResult) {
	in.prefix = prefix
	in.taken = in.taken[:0]
	in.di = 0
	in.steps = 0
	in.nvar = 0
	in.nondet = in.nondet[:0]
	in.pathVars = in.pathVars[:0]
	in.resetPC()
	in.secScaled = map[int]*Term{}
	in.nsScaled = map[int]*Term{}
	in.writeMark, in.sharedWrites = 0, 0
	in.unit = unit
	in.ufCalls = map[string][]ufCall{}
	in.decProv = map[string]*Term{}
	in.res = &PathResult{Covers: map[string][]NondetValue{}}
	in.env = newEnvState(in)
	in.sched = newScheduler(in)
	in.depth = 0
	res = in.res
	in.sol.Push()
	defer func() {
		r := recover()
		in.sched.killAll()
		if r != nil {
			switch x := r.(type) {
			case pathEnd:
				res.End, res.Msg = x.reason, x.msg
			case goPanic:
				res.End, res.Msg = "panic", showValue(x.v)
				// a Go panic that escapes the harness is a crash of the code under test
				res.Violations = append(res.Violations, Violation{Unit: in.unit, AssertID: "no-uncaught-panic", Msg: res.Msg,
					Nondet: in.safeModelValues(), Decs: append([]Decision(nil), in.taken...)})
			case engineError:
				res.End, res.Msg = "engine", x.msg
			default:
				res.End, res.Msg = "engine", fmt.Sprintf("host panic: %v", r)
				if in.cfg.Debug {
					panic(r)
				}
			}
		} else {
			res.End = "done"
		}
		res.Steps = in.steps
		res.Decs = len(in.taken)
		in.sol.Pop()
		in.rollback()
	}()
	in.sched.runMain(func() { in.call(fn, nil, nil, nil) })
	return
}

func (in *Interp) safeModelValues() (nv []NondetValue) {
	defer func() {
		if recover() != nil {
			nv = nil
		}
	}()
	return in.modelValues()
}

func (in *Interp) incomplete(msg string) {
	in.res.Incomplete = append(in.res.Incomplete, msg)
}

func (in *Interp) record(k byte, v int64) {
	in.taken = append(in.taken, Decision{k, v})
	if len(in.taken) > in.cfg.MaxDecisions {
		panic(pathEnd{"budget", fmt.Sprintf("more than %d decisions", in.cfg.MaxDecisions)})
	}
}

func (in *Interp) enqueue(alt Decision) {
	child := make([]Decision, len(in.taken)+1)
	copy(child, in.taken)
	child[len(in.taken)] = alt
	in.res.Children = append(in.res.Children, child)
}

// Choose returns a value in [0,n), forking over all alternatives.
func (in *Interp) Choose(n int) int {
	if n <= 1 {
		return 0
	}
	if in.di < len(in.prefix) {
		d := in.prefix[in.di]
		if d.K != 'C' {
			panic(engineErr("non-deterministic replay: expected choose got %c", d.K))
		}
		in.di++
		in.taken = append(in.taken, d)
		return int(d.V)
	}
	for i := 1; i < n; i++ {
		in.enqueue(Decision{'C', int64(i)})
	}
	in.record('C', 0)
	in.di++
	return 0
}

func (in *Interp) fresh(label string, s Sort) *Term {
	in.nvar++
	v := in.ts.Var(fmt.Sprintf("%s!%d", sanitize(label), in.nvar), s)
	in.noteVar(v)
	return v
}

func sanitize(s string) string {
	var sb strings.Builder
	for _, c := range s {
		if c >= 'a' && c <= 'z' || c >= 'A' && c <= 'Z' || c >= '0' && c <= '9' || c == '_' {
			sb.WriteRune(c)
		} else {
			sb.WriteByte('_')
		}
	}
	if sb.Len() == 0 {
		return "v"
	}
	return sb.String()
}

// concInt concretizes an integer-valued Value.
func (in *Interp) concInt(v Value) int {
	return int(in.Concretize(v.(*Term)))
}

// ---------------------------------------------------------------------------
// Go panics

func (in *Interp) goPanicStr(msg string) goPanic {
	return goPanic{Iface{T: runtimeErrorType, V: in.strConst(msg)}}
}

// runtimeErrorType marks panics raised by the runtime (index out of range, nil deref, ...).
var runtimeErrorType types.Type = types.NewNamed(types.NewTypeName(token.NoPos, nil, "runtime.Error", nil), types.Typ[types.String], nil)

// ---------------------------------------------------------------------------
// Frames

type deferred struct {
	fn   Value // *Closure
	args []Value
	ins  *ssa.Defer
}

type frame struct {
	in        *Interp
	fn        *ssa.Function
	fi        *fnInfo
	env       []Value
	caller    *frame
	block     *ssa.BasicBlock
	prev      *ssa.BasicBlock
	defers    []deferred
	result    Value
	panicking bool
	panicVal  interface{}
	g         *goroutine
}

func (fr *frame) get(v ssa.Value) Value {
	switch x := v.(type) {
	case *ssa.Const:
		return fr.in.constVal(x)
	case *ssa.Function:
		return &Closure{Fn: x}
	case *ssa.Global:
		return Ptr{Obj: fr.in.global(x)}
	case *ssa.Builtin:
		return x
	}
	i, ok := fr.fi.idx[v]
	if !ok {
		panic(engineErr("no slot for value %v in %v", v, fr.fn))
	}
	return fr.env[i]
}

func (fr *frame) set(v ssa.Value, x Value) {
	fr.env[fr.fi.idx[v]] = x
}

func (in *Interp) global(g *ssa.Global) *Obj {
	if o, ok := in.globals[g]; ok {
		return o
	}
	o := in.newObj(g.Type().(*types.Pointer).Elem())
	if in.undoOn {
		// created lazily after the freeze: behaves as a zero-valued frozen global
		o.Frozen = true
	}
	in.globals[g] = o
	return o
}

func (in *Interp) constVal(c *ssa.Const) Value {
	t := c.Type()
	if c.Value == nil {
		return in.zero(t)
	}
	switch u := under(t).(type) {
	case *types.Basic:
		switch {
		case u.Info()&types.IsBoolean != 0:
			return in.ts.Bool(constant.BoolVal(c.Value))
		case u.Info()&types.IsInteger != 0:
			w, signed := intWidth(u)
			if signed {
				return in.ts.Const(w, uint64(c.Int64()))
			}
			return in.ts.Const(w, c.Uint64())
		case u.Info()&types.IsString != 0:
			return in.strConst(constant.StringVal(c.Value))
		case u.Info()&types.IsFloat != 0:
			return c.Float64()
		case u.Info()&types.IsComplex != 0:
			return c.Complex128()
		}
	case *types.TypeParam:
	}
	panic(engineErr("const of unsupported type %v", t))
}

// call invokes fn with args (receiver first for methods).
func (in *Interp) call(fn *ssa.Function, args []Value, envv []Value, caller *frame) Value {
	if fn == nil {
		panic(engineErr("call of nil function"))
	}
	name := fn.String()
	if fn.Name() == "init" && fn.Signature.Recv() == nil && fn.Pkg != nil && caller != nil && caller.fn.Name() == "init" {
		return nil // dependency inits are run explicitly (InitPkgs), not transitively
	}
	if intr, ok := in.P.Intr[name]; ok {
		return intr(in, caller, args)
	}
	if fn.Blocks == nil && strings.HasPrefix(fn.Name(), "vp") {
		if intr, ok := in.P.Intr["vp:"+fn.Name()]; ok {
			return intr(in, caller, args)
		}
	}
	if o := fn.Origin(); o != nil {
		if intr, ok := in.P.Intr[o.String()]; ok {
			return intr(in, caller, args)
		}
	}
	if fn.Blocks == nil {
		if fn.Name() == "init" && fn.Signature.Recv() == nil {
			return nil // init of a package not built / without body
		}
		panic(engineErr("no body and no intrinsic for %s", name))
	}
	if in.cfg.TraceCalls {
		fmt.Fprintf(os.Stderr, "%*scall %s\n", in.depth, "", name)
	}
	in.depth++
	if in.depth > 400 {
		panic(engineErr("call depth exceeded at %s", name))
	}
	fi := in.P.info(fn)
	fr := &frame{in: in, fn: fn, fi: fi, env: make([]Value, fi.n), caller: caller}
	if caller != nil {
		fr.g = caller.g
	} else {
		fr.g = in.sched.cur
	}
	for i, p := range fn.Params {
		fr.env[fi.idx[p]] = args[i]
	}
	for i, fv := range fn.FreeVars {
		fr.env[fi.idx[fv]] = envv[i]
	}
	if in.isRepoFn(fn) {
		in.noteCovered(fn)
	}
	fr.block = fn.Blocks[0]
	in.runFrame(fr)
	in.depth--
	return fr.result
}

func (in *Interp) isRepoFn(fn *ssa.Function) bool {
	if fn.Pkg == nil {
		if fn.Origin() != nil && fn.Origin().Pkg != nil {
			return strings.HasPrefix(fn.Origin().Pkg.Pkg.Path(), in.P.RepoMod)
		}
		return false
	}
	return strings.HasPrefix(fn.Pkg.Pkg.Path(), in.P.RepoMod)
}

func (in *Interp) noteCovered(fn *ssa.Function) {
	p := in.P
	p.covMu.Lock()
	p.Covered[fn.String()]++
	p.covMu.Unlock()
}

func (in *Interp) runFrame(fr *frame) {
	defer func() {
		if fr.block == nil {
			return // normal return
		}
		r := recover()
		switch r.(type) {
		case pathEnd, engineError, crashKill:
			panic(r)
		case goPanic:
		default:
			panic(r) // host bug
		}
		fr.panicking = true
		fr.panicVal = r
		in.runDefers(fr)
		if fr.panicking {
			in.depth--
			panic(fr.panicVal)
		}
		// recovered
		if fr.fn.Recover != nil {
			fr.block = fr.fn.Recover
			fr.prev = nil
			in.runFrame(fr)
			return
		}
		fr.result = in.zeroResult(fr.fn)
		fr.block = nil
	}()
	for {
		in.runBlock(fr)
		if fr.block == nil {
			return
		}
	}
}

func (in *Interp) zeroResult(fn *ssa.Function) Value {
	res := fn.Signature.Results()
	switch res.Len() {
	case 0:
		return nil
	case 1:
		return in.zero(res.At(0).Type())
	}
	return in.zero(res)
}

func (in *Interp) runDefers(fr *frame) {
	for len(fr.defers) > 0 {
		d := fr.defers[len(fr.defers)-1]
		fr.defers = fr.defers[:len(fr.defers)-1]
		func() {
			defer func() {
				if r := recover(); r != nil {
					switch r.(type) {
					case goPanic:
						// a panic in a deferred call replaces the current one
						fr.panicking = true
						fr.panicVal = r
					default:
						panic(r)
					}
				}
			}()
			if bi, ok := d.fn.(*ssa.Builtin); ok && d.ins != nil {
				in.builtin(bi, d.args, fr, &d.ins.Call, nil)
			} else {
				in.callValue(d.fn, d.args, fr)
			}
		}()
	}
}

// callValue calls a function value (closure, builtin).
func (in *Interp) callValue(f Value, args []Value, caller *frame) Value {
	switch x := f.(type) {
	case *Closure:
		if x == nil {
			panic(in.goPanicStr("runtime error: invalid memory address or nil pointer dereference (nil func)"))
		}
		if x.Intr != "" {
			return in.P.Intr[x.Intr](in, caller, append(append([]Value{}, x.Env...), args...))
		}
		return in.call(x.Fn, args, x.Env, caller)
	case *ssa.Builtin:
		return in.builtin(x, args, caller, nil, nil)
	}
	panic(engineErr("call of non-function %T", f))
}

func (in *Interp) runBlock(fr *frame) {
	b := fr.block
	for _, ins := range b.Instrs {
		in.steps++
		if in.steps > in.cfg.MaxSteps {
			panic(pathEnd{"budget", fmt.Sprintf("step budget %d exhausted in %s", in.cfg.MaxSteps, fr.fn)})
		}
		switch x := ins.(type) {
		case *ssa.DebugRef:
		case *ssa.Jump:
			fr.prev, fr.block = b, b.Succs[0]
			return
		case *ssa.If:
			c := fr.get(x.Cond).(*Term)
			if in.Branch(c) {
				fr.prev, fr.block = b, b.Succs[0]
			} else {
				fr.prev, fr.block = b, b.Succs[1]
			}
			return
		case *ssa.Return:
			switch len(x.Results) {
			case 0:
				fr.result = nil
			case 1:
				fr.result = fr.get(x.Results[0])
			default:
				t := make(Tuple, len(x.Results))
				for i, r := range x.Results {
					t[i] = fr.get(r)
				}
				fr.result = t
			}
			fr.block = nil
			return
		case *ssa.Panic:
			panic(goPanic{fr.get(x.X)})
		case *ssa.RunDefers:
			in.runDefers(fr)
			if fr.panicking {
				panic(fr.panicVal)
			}
		case *ssa.Store:
			in.store(fr.get(x.Addr).(Ptr), x.Val.Type(), fr.get(x.Val))
		case *ssa.MapUpdate:
			in.mapUpdate(fr.get(x.Map).(*MapObj), fr.get(x.Key), fr.get(x.Value), x.Map.Type())
		case *ssa.Defer:
			fn, args := in.prepareCall(fr, &x.Call)
			fr.defers = append(fr.defers, deferred{fn: fn, args: args, ins: x})
		case *ssa.Go:
			fn, args := in.prepareCall(fr, &x.Call)
			in.sched.spawn(fn, args)
		case *ssa.Send:
			in.chanSend(fr.get(x.Chan).(*ChanObj), fr.get(x.X))
		case ssa.Value:
			fr.set(x, in.eval(fr, x))
		default:
			panic(engineErr("unsupported instruction %T", ins))
		}
	}
	panic(engineErr("block fell through in %s", fr.fn))
}

// prepareCall resolves the callee and arguments of a call.
func (in *Interp) prepareCall(fr *frame, c *ssa.CallCommon) (Value, []Value) {
	if c.IsInvoke() {
		recv := fr.get(c.Value).(Iface)
		if recv.T == nil {
			panic(in.goPanicStr("runtime error: invalid memory address or nil pointer dereference (nil interface method call)"))
		}
		fn := in.lookupMethod(recv.T, c.Method)
		args := make([]Value, 0, len(c.Args)+1)
		args = append(args, recv.V)
		for _, a := range c.Args {
			args = append(args, fr.get(a))
		}
		return &Closure{Fn: fn}, args
	}
	args := make([]Value, len(c.Args))
	for i, a := range c.Args {
		args[i] = fr.get(a)
	}
	return fr.get(c.Value), args
}

func (in *Interp) lookupMethod(t types.Type, m *types.Func) *ssa.Function {
	ms := in.P.Prog.MethodSets.MethodSet(t)
	sel := ms.Lookup(m.Pkg(), m.Name())
	if sel == nil {
		panic(engineErr("method %s not found on %v", m.Name(), t))
	}
	fn := in.P.Prog.MethodValue(sel)
	if fn == nil {
		panic(engineErr("no ssa function for method %s of %v", m.Name(), t))
	}
	return fn
}

// ---------------------------------------------------------------------------
// Expression evaluation

func (in *Interp) eval(fr *frame, v ssa.Value) Value {
	ts := in.ts
	switch x := v.(type) {
	case *ssa.Alloc:
		t := x.Type().(*types.Pointer).Elem()
		return Ptr{Obj: in.newObj(t)}
	case *ssa.Phi:
		for i, p := range fr.block.Preds {
			if p == fr.prev {
				return fr.get(x.Edges[i])
			}
		}
		panic(engineErr("phi: no predecessor"))
	case *ssa.Call:
		fn, args := in.prepareCall(fr, &x.Call)
		if b, ok := fn.(*ssa.Builtin); ok {
			return in.builtin(b, args, fr, &x.Call, x.Type())
		}
		return in.callValue(fn, args, fr)
	case *ssa.BinOp:
		return in.binop(x.Op, x.X.Type(), fr.get(x.X), fr.get(x.Y), x.Y.Type())
	case *ssa.UnOp:
		return in.unop(fr, x)
	case *ssa.ChangeType:
		return fr.get(x.X)
	case *ssa.Convert:
		in.convFrame = fr
		return in.convert(x.X.Type(), x.Type(), fr.get(x.X))
	case *ssa.MultiConvert:
		in.convFrame = fr
		return in.convert(x.X.Type(), x.Type(), fr.get(x.X))
	case *ssa.ChangeInterface:
		return fr.get(x.X)
	case *ssa.MakeInterface:
		return Iface{T: x.X.Type(), V: fr.get(x.X)}
	case *ssa.Extract:
		return fr.get(x.Tuple).(Tuple)[x.Index]
	case *ssa.Field:
		return fr.get(x.X).(StructV)[x.Field]
	case *ssa.FieldAddr:
		p := fr.get(x.X).(Ptr)
		if p.Obj == nil {
			panic(in.goPanicStr("runtime error: invalid memory address or nil pointer dereference"))
		}
		p = in.concPtr(p)
		st := under(x.X.Type().(*types.Pointer).Elem()).(*types.Struct)
		return Ptr{Obj: p.Obj, Off: p.Off + in.fieldOffset(st, x.Field)}
	case *ssa.Index:
		return in.index(fr, x)
	case *ssa.IndexAddr:
		return in.indexAddr(fr, x)
	case *ssa.Lookup:
		return in.lookup(fr, x)
	case *ssa.MakeClosure:
		env := make([]Value, len(x.Bindings))
		for i, b := range x.Bindings {
			env[i] = fr.get(b)
		}
		return &Closure{Fn: x.Fn.(*ssa.Function), Env: env}
	case *ssa.MakeMap:
		return &MapObj{KT: under(x.Type()).(*types.Map).Key()}
	case *ssa.MakeChan:
		return in.makeChan(in.concInt(fr.get(x.Size)))
	case *ssa.MakeSlice:
		n := in.concInt(fr.get(x.Len))
		c := in.concInt(fr.get(x.Cap))
		if n < 0 || c < n {
			panic(in.goPanicStr("runtime error: makeslice: len out of range"))
		}
		if c > 1<<24 {
			panic(engineErr("makeslice of %d elements", c))
		}
		et := under(x.Type()).(*types.Slice).Elem()
		return Slice{Obj: in.newArray(et, c), Off: 0, Len: n, Cap: c}
	case *ssa.Slice:
		return in.sliceOp(fr, x)
	case *ssa.SliceToArrayPointer:
		s := fr.get(x.X).(Slice)
		n := int(under(x.Type().(*types.Pointer).Elem()).(*types.Array).Len())
		if s.Len < n {
			panic(in.goPanicStr("runtime error: cannot convert slice to array pointer"))
		}
		if s.Obj == nil {
			return Ptr{}
		}
		return Ptr{Obj: s.Obj, Off: s.Off}
	case *ssa.TypeAssert:
		return in.typeAssert(x, fr.get(x.X).(Iface))
	case *ssa.Range:
		return in.makeRange(x, fr.get(x.X))
	case *ssa.Next:
		in.convFrame = fr
		return in.next(x, fr.get(x.Iter).(*rangeIter))
	case *ssa.Select:
		return in.selectOp(fr, x)
	}
	_ = ts
	panic(engineErr("unsupported value instruction %T", v))
}

func (in *Interp) typeAssert(x *ssa.TypeAssert, v Iface) Value {
	ok := false
	var res Value
	if _, isI := under(x.AssertedType).(*types.Interface); isI {
		if v.T != nil && in.implements(v.T, x.AssertedType) {
			ok = true
			res = v
		} else {
			res = Iface{}
		}
	} else {
		if v.T != nil && types.Identical(v.T, x.AssertedType) {
			ok = true
			res = v.V
		} else {
			res = in.zero(x.AssertedType)
		}
	}
	if x.CommaOk {
		return Tuple{res, in.ts.Bool(ok)}
	}
	if !ok {
		panic(goPanic{Iface{T: runtimeErrorType, V: in.strConst(fmt.Sprintf("interface conversion: %v is not %v", v.T, x.AssertedType))}})
	}
	return res
}

func (in *Interp) implements(t types.Type, it types.Type) bool {
	if t == runtimeErrorType {
		return false
	}
	iface := under(it).(*types.Interface)
	if iface.NumMethods() == 0 {
		return true
	}
	ms := in.P.Prog.MethodSets.MethodSet(t)
	for i := 0; i < iface.NumMethods(); i++ {
		m := iface.Method(i)
		sel := ms.Lookup(m.Pkg(), m.Name())
		if sel == nil {
			return false
		}
		if !types.Identical(sel.Type(), m.Type()) {
			// sel.Type() for a method value has the receiver stripped
			if sig, ok := sel.Obj().Type().(*types.Signature); !ok || !sameSig(sig, m.Type().(*types.Signature)) {
				return false
			}
		}
	}
	return true
}

func sameSig(a, b *types.Signature) bool {
	return types.Identical(types.NewSignatureType(nil, nil, nil, a.Params(), a.Results(), a.Variadic()),
		types.NewSignatureType(nil, nil, nil, b.Params(), b.Results(), b.Variadic()))
}

func (in *Interp) unop(fr *frame, x *ssa.UnOp) Value {
	ts := in.ts
	v := fr.get(x.X)
	switch x.Op {
	case token.MUL: // load
		return in.load(v.(Ptr), x.Type())
	case token.NOT:
		return ts.Not(v.(*Term))
	case token.SUB:
		switch t := v.(type) {
		case *Term:
			return ts.Neg(t)
		case float64:
			return -t
		}
	case token.XOR:
		return ts.BvNot(v.(*Term))
	case token.ARROW:
		val, ok := in.chanRecv(v.(*ChanObj), under(x.X.Type()).(*types.Chan).Elem())
		if x.CommaOk {
			return Tuple{val, ts.Bool(ok)}
		}
		return val
	}
	panic(engineErr("unsupported unop %v on %T", x.Op, v))
}

func (in *Interp) isSigned(t types.Type) bool {
	if b, ok := under(t).(*types.Basic); ok {
		_, s := intWidth(b)
		return s
	}
	return false
}

func (in *Interp) binop(op token.Token, xt types.Type, a, b Value, yt types.Type) Value {
	ts := in.ts
	switch op {
	case token.EQL:
		return in.equal(xt, a, b)
	case token.NEQ:
		return ts.Not(in.equal(xt, a, b))
	}
	// mixed concrete / symbolic floats
	if _, ok := a.(float64); ok {
		if yt, ok := b.(*Term); ok && yt.Sort.K == SFP64 {
			return in.fpBinop(op, toFP(in, a), yt)
		}
	}
	if xt, ok := a.(*Term); ok && xt.Sort.K == SFP64 {
		if _, ok := b.(float64); ok {
			return in.fpBinop(op, xt, toFP(in, b))
		}
	}
	switch x := a.(type) {
	case *Term:
		y := b.(*Term)
		if x.Sort.K == SBool {
			switch op {
			case token.LAND, token.AND:
				return ts.And(x, y)
			case token.LOR, token.OR:
				return ts.Or(x, y)
			}
			panic(engineErr("bool binop %v", op))
		}
		if x.Sort.K == SFP64 || y.Sort.K == SFP64 {
			return in.fpBinop(op, x, y)
		}
		signed := in.isSigned(xt)
		switch op {
		case token.ADD:
			return ts.Add(x, y)
		case token.SUB:
			return ts.Sub(x, y)
		case token.MUL:
			return ts.Mul(x, y)
		case token.QUO, token.REM:
			z := ts.Eq(y, ts.Const(y.Sort.W, 0))
			if in.Branch(z) {
				panic(in.goPanicStr("runtime error: integer divide by zero"))
			}
			if op == token.QUO {
				if signed {
					return ts.SDiv(x, y)
				}
				return ts.UDiv(x, y)
			}
			if signed {
				return ts.SRem(x, y)
			}
			return ts.URem(x, y)
		case token.AND:
			return ts.BvAnd(x, y)
		case token.OR:
			return ts.BvOr(x, y)
		case token.XOR:
			return ts.BvXor(x, y)
		case token.AND_NOT:
			return ts.BvAnd(x, ts.BvNot(y))
		case token.SHL, token.SHR:
			w := x.Sort.W
			// bring the count to x's width, saturating
			var cnt *Term
			var big *Term = ts.False
			if y.Sort.W > w {
				big = ts.Not(ts.Eq(ts.Extract(y, y.Sort.W-1, w), ts.Const(y.Sort.W-w, 0)))
				cnt = ts.Extract(y, w-1, 0)
			} else {
				cnt = ts.Zext(y, w)
			}
			if in.isSigned(yt) && !y.IsConst() {
				// negative shift counts panic in Go
				neg := ts.Slt(y, ts.Const(y.Sort.W, 0))
				if in.Branch(neg) {
					panic(in.goPanicStr("runtime error: negative shift amount"))
				}
			}
			var r *Term
			if op == token.SHL {
				r = ts.Shl(x, cnt)
				if !big.IsFalse() {
					r = ts.Ite(big, ts.Const(w, 0), r)
				}
			} else if signed {
				r = ts.Ashr(x, cnt)
				if !big.IsFalse() {
					r = ts.Ite(big, ts.Ashr(x, ts.Const(w, uint64(w-1))), r)
				}
			} else {
				r = ts.Lshr(x, cnt)
				if !big.IsFalse() {
					r = ts.Ite(big, ts.Const(w, 0), r)
				}
			}
			return r
		case token.LSS, token.LEQ, token.GTR, token.GEQ:
			if signed && x.Sort.W == 64 {
				if r := in.cmpScaled(op, x, y); r != nil {
					return r
				}
			}
		}
		switch op {
		case token.LSS:
			if signed {
				return ts.Slt(x, y)
			}
			return ts.Ult(x, y)
		case token.LEQ:
			if signed {
				return ts.Sle(x, y)
			}
			return ts.Ule(x, y)
		case token.GTR:
			if signed {
				return ts.Slt(y, x)
			}
			return ts.Ult(y, x)
		case token.GEQ:
			if signed {
				return ts.Sle(y, x)
			}
			return ts.Ule(y, x)
		}
	case Str:
		y := b.(Str)
		switch op {
		case token.ADD:
			if len(x.B) == 0 {
				return y
			}
			if len(y.B) == 0 {
				return x
			}
			nb := make([]*Term, 0, len(x.B)+len(y.B))
			nb = append(nb, x.B...)
			nb = append(nb, y.B...)
			return Str{nb}
		case token.LSS:
			return in.strLess(x, y)
		case token.GTR:
			return in.strLess(y, x)
		case token.LEQ:
			return ts.Not(in.strLess(y, x))
		case token.GEQ:
			return ts.Not(in.strLess(x, y))
		}
	case float64:
		switch y := b.(type) {
		case float64:
			switch op {
			case token.ADD:
				return x + y
			case token.SUB:
				return x - y
			case token.MUL:
				return x * y
			case token.QUO:
				return x / y
			case token.LSS:
				return ts.Bool(x < y)
			case token.LEQ:
				return ts.Bool(x <= y)
			case token.GTR:
				return ts.Bool(x > y)
			case token.GEQ:
				return ts.Bool(x >= y)
			}
		case *Term:
			return in.fpBinop(op, ts.FPConst(math.Float64bits(x)), y)
		}
	}
	panic(engineErr("unsupported binop %v on %T,%T", op, a, b))
}

// cmpScaled rewrites (secs*1e9 + ns) cmp K, or a comparison of two such durations, into a
// lexicographic comparison on (secs, ns) (exact: no overflow by construction, 0 <= ns < 1e9).
func (in *Interp) cmpScaled(op token.Token, x, y *Term) *Term {
	ts := in.ts
	const e9 = int64(1000000000)
	flip := map[token.Token]token.Token{token.LSS: token.GTR, token.GTR: token.LSS, token.LEQ: token.GEQ, token.GEQ: token.LEQ}
	sx, okx := in.secScaled[x.ID]
	sy, oky := in.secScaled[y.ID]
	var nx, ny *Term
	switch {
	case okx && oky:
		nx, ny = in.nsScaled[x.ID], in.nsScaled[y.ID]
	case okx && y.IsConst():
		k := int64(y.Val)
		q := k / e9 // floor division
		r := k % e9
		if r < 0 {
			q--
			r += e9
		}
		nx = in.nsScaled[x.ID]
		sy, ny = ts.Const(64, uint64(q)), ts.Const(64, uint64(r))
	case oky && x.IsConst():
		return in.cmpScaled(flip[op], y, x)
	default:
		return nil
	}
	lt := ts.Or(ts.Slt(sx, sy), ts.And(ts.Eq(sx, sy), ts.Ult(nx, ny)))
	le := ts.Or(ts.Slt(sx, sy), ts.And(ts.Eq(sx, sy), ts.Ule(nx, ny)))
	switch op {
	case token.LSS:
		return lt
	case token.LEQ:
		return le
	case token.GTR:
		return ts.Not(le)
	case token.GEQ:
		return ts.Not(lt)
	}
	return nil
}

func (in *Interp) fpBinop(op token.Token, x, y *Term) Value {
	ts := in.ts
	switch op {
	case token.LSS:
		return ts.FPCmp(OpFPLt, x, y)
	case token.LEQ:
		return ts.FPCmp(OpFPLe, x, y)
	case token.GTR:
		return ts.FPCmp(OpFPGt, x, y)
	case token.GEQ:
		return ts.FPCmp(OpFPGe, x, y)
	}
	panic(engineErr("unsupported symbolic float op %v", op))
}

func toFP(in *Interp, v Value) *Term {
	switch x := v.(type) {
	case float64:
		return in.ts.FPConst(math.Float64bits(x))
	case *Term:
		return x
	}
	panic(engineErr("toFP %T", v))
}

// equal builds the Go == comparison.
func (in *Interp) equal(t types.Type, a, b Value) *Term {
	ts := in.ts
	switch x := a.(type) {
	case *Term:
		switch y := b.(type) {
		case *Term:
			if x.Sort.K == SFP64 {
				return ts.FPCmp(OpFPEq, x, y)
			}
			return ts.Eq(x, y)
		case float64:
			return ts.FPCmp(OpFPEq, x, toFP(in, y))
		}
	case float64:
		switch y := b.(type) {
		case float64:
			return ts.Bool(x == y)
		case *Term:
			return ts.FPCmp(OpFPEq, toFP(in, x), y)
		}
	case Str:
		return in.strEq(x, b.(Str))
	case Ptr:
		y := b.(Ptr)
		if x.Sym != nil || y.Sym != nil {
			x, y = in.concPtr(x), in.concPtr(y)
		}
		return ts.Bool(x.Obj == y.Obj && (x.Obj == nil || x.Off == y.Off))
	case Slice:
		y := b.(Slice)
		if x.Obj != nil && y.Obj != nil {
			panic(engineErr("slice comparison"))
		}
		return ts.Bool(x.Obj == nil && y.Obj == nil)
	case *MapObj:
		return ts.Bool(x == b.(*MapObj))
	case *ChanObj:
		return ts.Bool(x == b.(*ChanObj))
	case *Closure:
		y := b.(*Closure)
		return ts.Bool(x == nil && y == nil)
	case Iface:
		y := b.(Iface)
		if x.T == nil || y.T == nil {
			return ts.Bool(x.T == nil && y.T == nil)
		}
		if !types.Identical(x.T, y.T) {
			return ts.False
		}
		return in.equal(x.T, x.V, y.V)
	case StructV:
		y := b.(StructV)
		st := under(t).(*types.Struct)
		cs := make([]*Term, len(x))
		for i := range x {
			cs[i] = in.equal(st.Field(i).Type(), x[i], y[i])
		}
		return ts.And(cs...)
	case ArrayV:
		y := b.(ArrayV)
		et := under(t).(*types.Array).Elem()
		cs := make([]*Term, len(x))
		for i := range x {
			cs[i] = in.equal(et, x[i], y[i])
		}
		return ts.And(cs...)
	case PtrInt:
		y, ok := b.(PtrInt)
		return ts.Bool(ok && x.P.Obj == y.P.Obj && x.P.Off == y.P.Off)
	case nil:
		return ts.Bool(b == nil)
	}
	panic(engineErr("equal: unsupported %T (%v)", a, t))
}

func (in *Interp) curFrame() *frame { return in.convFrame }

func (in *Interp) convert(from, to types.Type, v Value) Value {
	ts := in.ts
	uf, ut := under(from), under(to)
	switch t := ut.(type) {
	case *types.Basic:
		switch {
		case t.Info()&types.IsInteger != 0:
			w, _ := intWidth(t)
			switch x := v.(type) {
			case *Term:
				if x.Sort.K == SFP64 {
					// in-range values convert toward zero; out-of-range is implementation-defined in Go
					r := ts.FPToBV(x, in.isSigned(to))
					return ts.Resize(r, w, in.isSigned(to))
				}
				return ts.Resize(x, w, in.isSigned(from))
			case float64:
				return ts.Const(w, uint64(int64(x)))
			case Ptr:
				return PtrInt{x}
			case PtrInt:
				return x
			}
		case t.Info()&types.IsFloat != 0:
			switch x := v.(type) {
			case float64:
				if t.Kind() == types.Float32 {
					return float64(float32(x))
				}
				return x
			case *Term:
				if x.Sort.K == SFP64 {
					return x
				}
				signed := in.isSigned(from)
				if x.IsConst() {
					if signed {
						return float64(sext64(x.Val, x.Sort.W))
					}
					return float64(x.Val)
				}
				return ts.FPFrom(x, signed)
			}
		case t.Info()&types.IsString != 0:
			switch x := v.(type) {
			case Str:
				return x
			case Slice:
				if sl, ok := uf.(*types.Slice); ok {
					if eb, ok := under(sl.Elem()).(*types.Basic); ok && eb.Kind() == types.Int32 {
						// []rune -> string (concrete only)
						var sb strings.Builder
						for i := 0; i < x.Len; i++ {
							r := x.Obj.Slots[x.Off+i].(*Term)
							if !r.IsConst() {
								// symbolic runes: the real encoder (unicode/utf8.AppendRune) per rune
								var out []*Term
								for j := 0; j < x.Len; j++ {
									out = append(out, in.encodeRune(x.Obj.Slots[x.Off+j].(*Term))...)
								}
								return Str{out}
							}
							sb.WriteRune(rune(int32(r.Val)))
						}
						return in.strConst(sb.String())
					}
				}
				if x.Len == 0 {
					return Str{}
				}
				return Str{in.sliceBytes(x)}
			case *Term:
				// integer -> string (rune)
				if !x.IsConst() {
					// ASCII fast path
					if in.Branch(ts.Ult(ts.Resize(x, 64, false), ts.Const(64, 0x80))) {
						return Str{[]*Term{ts.Resize(x, 8, false)}}
					}
					return Str{in.encodeRune(ts.Resize(x, 32, true))}
				}
				return in.strConst(string(rune(sext64(x.Val, x.Sort.W))))
			}
		case t.Kind() == types.UnsafePointer:
			switch x := v.(type) {
			case Ptr:
				return x
			case PtrInt:
				return x.P
			case *Term:
				if x.IsConst() && x.Val == 0 {
					return Ptr{}
				}
			}
		case t.Info()&types.IsBoolean != 0:
			return v
		case t.Info()&types.IsComplex != 0:
			return v
		}
	case *types.Slice:
		if s, ok := v.(Str); ok {
			eb := under(t.Elem()).(*types.Basic)
			if eb.Kind() == types.Int32 {
				cs, ok := s.Concrete()
				if !ok {
					// symbolic strings: the real decoder (unicode/utf8.DecodeRuneInString) rune by rune
					var out []*Term
					for pos := 0; pos < len(s.B); {
						r, size := in.decodeRuneSym(s.B[pos:])
						out = append(out, r)
						pos += size
					}
					if len(out) == 0 {
						return Slice{Obj: in.newArray(t.Elem(), 0)}
					}
					o := in.newByteSlice(out)
					return o
				}
				rs := []rune(cs)
				out := make([]*Term, len(rs))
				for i, r := range rs {
					out[i] = ts.Const(32, uint64(uint32(r)))
				}
				return in.newByteSlice(out)
			}
			if len(s.B) == 0 {
				// Go: []byte("") is non-nil empty
				return Slice{Obj: in.newArray(t.Elem(), 0)}
			}
			return in.newByteSlice(s.B)
		}
		return v
	case *types.Pointer:
		switch x := v.(type) {
		case Ptr:
			return x
		case PtrInt:
			return x.P
		}
	}
	if types.Identical(uf, ut) {
		return v
	}
	panic(engineErr("unsupported conversion %v -> %v (%T)", from, to, v))
}

func (in *Interp) index(fr *frame, x *ssa.Index) Value {
	ts := in.ts
	c := fr.get(x.X)
	idx := fr.get(x.Index).(*Term)
	switch cv := c.(type) {
	case Str:
		n := len(cv.B)
		in.boundsCheck(idx, n, in.isSigned(x.Index.Type()))
		if idx.IsConst() {
			return cv.B[idx.Val]
		}
		if n <= 64 {
			return in.tableSelect(cv.B, idx)
		}
		return cv.B[in.Concretize(idx)]
	case ArrayV:
		n := len(cv)
		in.boundsCheck(idx, n, in.isSigned(x.Index.Type()))
		if idx.IsConst() {
			return cv[idx.Val]
		}
		if n <= 256 {
			vals := make([]*Term, n)
			okAll := true
			for i, e := range cv {
				t, ok := e.(*Term)
				if !ok {
					okAll = false
					break
				}
				vals[i] = t
			}
			if okAll {
				return in.tableSelect(vals, idx)
			}
		}
		return cv[in.Concretize(idx)]
	}
	_ = ts
	panic(engineErr("index on %T", c))
}

// boundsCheck branches on idx being within [0,n) and panics otherwise.
func (in *Interp) boundsCheck(idx *Term, n int, signed bool) {
	ts := in.ts
	// compare at 64 bits so that n need not fit the index type
	i64 := ts.Resize(idx, 64, signed)
	ok := ts.Ult(i64, ts.Const(64, uint64(n)))
	if !in.Branch(ok) {
		panic(in.goPanicStr(fmt.Sprintf("runtime error: index out of range [%s] with length %d", idx, n)))
	}
}

func (in *Interp) indexAddr(fr *frame, x *ssa.IndexAddr) Value {
	base := fr.get(x.X)
	idx := fr.get(x.Index).(*Term)
	signed := in.isSigned(x.Index.Type())
	var obj *Obj
	var off, n int
	var et types.Type
	switch b := base.(type) {
	case Slice:
		obj, off, n = b.Obj, b.Off, b.Len
		et = under(x.X.Type()).(*types.Slice).Elem()
	case Ptr:
		if b.Obj == nil {
			panic(in.goPanicStr("runtime error: invalid memory address or nil pointer dereference"))
		}
		b = in.concPtr(b)
		at := under(x.X.Type().(*types.Pointer).Elem()).(*types.Array)
		obj, off, n = b.Obj, b.Off, int(at.Len())
		et = at.Elem()
	default:
		panic(engineErr("indexaddr on %T", base))
	}
	in.boundsCheck(idx, n, signed)
	es := in.slotCount(et)
	if idx.IsConst() {
		return Ptr{Obj: obj, Off: off + int(idx.Val)*es}
	}
	if es == 1 && n <= 256 {
		return Ptr{Obj: obj, Off: off, Sym: idx, N: n}
	}
	i := in.Concretize(idx)
	return Ptr{Obj: obj, Off: off + int(i)*es}
}

func (in *Interp) sliceOp(fr *frame, x *ssa.Slice) Value {
	base := fr.get(x.X)
	var lo, hi, max int = 0, -1, -1
	if x.Low != nil {
		lo = in.concInt(fr.get(x.Low))
	}
	if x.High != nil {
		hi = in.concInt(fr.get(x.High))
	}
	if x.Max != nil {
		max = in.concInt(fr.get(x.Max))
	}
	oob := func(n int) goPanic {
		return in.goPanicStr(fmt.Sprintf("runtime error: slice bounds out of range [%d:%d:%d] with capacity/length %d", lo, hi, max, n))
	}
	switch b := base.(type) {
	case Str:
		n := len(b.B)
		if hi < 0 {
			hi = n
		}
		if lo < 0 || lo > hi || hi > n {
			panic(oob(n))
		}
		return Str{b.B[lo:hi]}
	case Slice:
		if hi < 0 {
			hi = b.Len
		}
		if max < 0 {
			max = b.Cap
		}
		if lo < 0 || lo > hi || hi > max || max > b.Cap {
			panic(oob(b.Cap))
		}
		if b.Obj == nil {
			return Slice{}
		}
		es := in.slotCount(under(x.Type()).(*types.Slice).Elem())
		return Slice{Obj: b.Obj, Off: b.Off + lo*es, Len: hi - lo, Cap: max - lo}
	case Ptr:
		if b.Obj == nil {
			panic(in.goPanicStr("runtime error: invalid memory address or nil pointer dereference"))
		}
		b = in.concPtr(b)
		at := under(x.X.Type().(*types.Pointer).Elem()).(*types.Array)
		n := int(at.Len())
		if hi < 0 {
			hi = n
		}
		if max < 0 {
			max = n
		}
		if lo < 0 || lo > hi || hi > max || max > n {
			panic(oob(n))
		}
		es := in.slotCount(at.Elem())
		return Slice{Obj: b.Obj, Off: b.Off + lo*es, Len: hi - lo, Cap: max - lo}
	}
	panic(engineErr("slice of %T", base))
}

// ---------------------------------------------------------------------------
// Maps

func (in *Interp) mapFind(m *MapObj, k Value, kt types.Type) int {
	if m == nil {
		return -1
	}
	for i, e := range m.Entries {
		if in.Branch(in.equal(kt, e.K, k)) {
			return i
		}
	}
	return -1
}

func (in *Interp) mapTouch(m *MapObj) {
	if m.Frozen && in.undoOn {
		in.undo = append(in.undo, undoRec{m: m, ent: m.Entries})
		m.Entries = append([]mapEntry(nil), m.Entries...)
	}
}

func (in *Interp) mapUpdate(m *MapObj, k, v Value, mt types.Type) {
	if m == nil {
		panic(in.goPanicStr("assignment to entry in nil map"))
	}
	kt := under(mt).(*types.Map).Key()
	i := in.mapFind(m, k, kt)
	in.mapTouch(m)
	if i >= 0 {
		m.Entries[i].V = v
		return
	}
	m.Entries = append(m.Entries, mapEntry{k, v})
}

func (in *Interp) mapDelete(m *MapObj, k Value, kt types.Type) {
	if m == nil {
		return
	}
	i := in.mapFind(m, k, kt)
	if i < 0 {
		return
	}
	in.mapTouch(m)
	ne := make([]mapEntry, 0, len(m.Entries)-1)
	ne = append(ne, m.Entries[:i]...)
	ne = append(ne, m.Entries[i+1:]...)
	m.Entries = ne
}

func (in *Interp) lookup(fr *frame, x *ssa.Lookup) Value {
	c := fr.get(x.X)
	if s, ok := c.(Str); ok {
		idx := fr.get(x.Index).(*Term)
		in.boundsCheck(idx, len(s.B), in.isSigned(x.Index.Type()))
		if idx.IsConst() {
			return s.B[idx.Val]
		}
		if len(s.B) <= 64 {
			return in.tableSelect(s.B, idx)
		}
		return s.B[in.Concretize(idx)]
	}
	m := c.(*MapObj)
	mt := under(x.X.Type()).(*types.Map)
	i := in.mapFind(m, fr.get(x.Index), mt.Key())
	var v Value
	if i >= 0 {
		v = m.Entries[i].V
	} else {
		v = in.zero(mt.Elem())
	}
	if x.CommaOk {
		return Tuple{v, in.ts.Bool(i >= 0)}
	}
	return v
}

// ---------------------------------------------------------------------------
// Range / Next

type rangeIter struct {
	str   Str
	m     []mapEntry
	pos   int
	isStr bool
}

func (in *Interp) makeRange(x *ssa.Range, v Value) Value {
	switch c := v.(type) {
	case Str:
		return &rangeIter{str: c, isStr: true}
	case *MapObj:
		it := &rangeIter{}
		if c != nil {
			it.m = append([]mapEntry(nil), c.Entries...)
			// deterministic but Go leaves order unspecified: sort concrete string keys for stability
			sort.SliceStable(it.m, func(i, j int) bool {
				a, ok1 := it.m[i].K.(Str)
				b, ok2 := it.m[j].K.(Str)
				if ok1 && ok2 {
					as, c1 := a.Concrete()
					bs, c2 := b.Concrete()
					if c1 && c2 {
						return as < bs
					}
				}
				return false
			})
		}
		return it
	}
	panic(engineErr("range over %T", v))
}

func (in *Interp) next(x *ssa.Next, it *rangeIter) Value {
	ts := in.ts
	if it.isStr {
		if it.pos >= len(it.str.B) {
			return Tuple{ts.False, in.intConst(0), ts.Const(32, 0)}
		}
		i := it.pos
		b := it.str.B[i]
		// decode one rune; symbolic bytes fork on the ASCII test
		if in.Branch(ts.Ult(b, in.byteConst(0x80))) {
			it.pos++
			return Tuple{ts.True, in.intConst(int64(i)), ts.Zext(b, 32)}
		}
		// multi-byte: the real decoder
		r, size := in.decodeRuneSym(it.str.B[i:])
		it.pos += size
		return Tuple{ts.True, in.intConst(int64(i)), r}
	}
	if it.pos >= len(it.m) {
		tt := x.Type().(*types.Tuple)
		return Tuple{ts.False, in.zero(tt.At(1).Type()), in.zero(tt.At(2).Type())}
	}
	e := it.m[it.pos]
	it.pos++
	return Tuple{ts.True, e.K, e.V}
}

// decodeRuneSym decodes the first rune of a non-empty byte string by executing the real
// unicode/utf8.DecodeRuneInString from its SSA (symbolic bytes fork as that code branches).
func (in *Interp) decodeRuneSym(b []*Term) (*Term, int) {
	if len(b) > 4 {
		b = b[:4]
	}
	if cs, ok := (Str{b}).Concrete(); ok {
		r, size := decodeRune([]byte(cs))
		return in.ts.Const(32, uint64(uint32(r))), size
	}
	p := in.P.Pkgs["unicode/utf8"]
	if p == nil || p.Func("DecodeRuneInString") == nil {
		panic(engineErr("unicode/utf8 not loaded"))
	}
	res := in.call(p.Func("DecodeRuneInString"), []Value{Str{b}}, nil, in.curFrame()).(Tuple)
	size := res[1].(*Term)
	if !size.IsConst() {
		size = in.ts.Const(64, uint64(in.Concretize(size)))
	}
	return res[0].(*Term), int(size.Val)
}

// encodeRune is utf8.AppendRune(nil, r) executed from its SSA.
func (in *Interp) encodeRune(r *Term) []*Term {
	if r.IsConst() {
		return in.strConst(string(rune(int32(r.Val)))).B
	}
	p := in.P.Pkgs["unicode/utf8"]
	if p == nil || p.Func("AppendRune") == nil {
		panic(engineErr("unicode/utf8 not loaded"))
	}
	res := in.call(p.Func("AppendRune"), []Value{Slice{}, r}, nil, in.curFrame()).(Slice)
	return in.sliceBytes(res)
}

func decodeRune(b []byte) (rune, int) {
	s := string(b)
	for _, r := range s {
		if r == 0xFFFD {
			// could be a real U+FFFD (3 bytes) or an error (1 byte)
			if len(b) >= 3 && b[0] == 0xEF && b[1] == 0xBF && b[2] == 0xBD {
				return r, 3
			}
			return r, 1
		}
		return r, len(string(r))
	}
	return 0xFFFD, 1
}
