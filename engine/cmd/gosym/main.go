// gosym: runs the harness units of one property symbolically against /repo's current tree.
package main

import (
	"encoding/json"
	"flag"
	"fmt"
	"os"
	"os/exec"
	"path/filepath"
	"regexp"
	"runtime"
	"sort"
	"strconv"
	"strings"
	"time"

	"gosym/sym"
)

type propSpec struct {
	Pkgs        []string          `json:"pkgs"`      // package dirs relative to the repo root
	InitPkgs    []string          `json:"init_pkgs"` // extra packages whose init runs
	Bounds      map[string]string `json:"bounds"`
	Assumptions []string          `json:"assumptions"`
	Outside     []string          `json:"outside"`
}

var (
	flagProp        = flag.String("prop", "", "property id (e.g. C13)")
	flagTier        = flag.String("tier", "quick", "quick|thorough")
	flagRepo        = flag.String("repo", "/repo", "repository root")
	flagVerif       = flag.String("verif", "/verif", "verif root")
	flagUnit        = flag.String("unit", "", "run only units matching this regexp")
	flagWorkers     = flag.Int("workers", 0, "worker count (default: cores)")
	flagDebug       = flag.Bool("debug", false, "debug")
	flagTrace       = flag.Bool("trace", false, "trace calls")
	flagNoReplay    = flag.Bool("noreplay", false, "do not replay counterexamples natively")
	flagSolver      = flag.String("solver", "z3-new", "solver binary")
	flagCross       = flag.String("crosscheck", "auto", "re-discharge logged solver sessions (a capped sample per unit; larger in the thorough tier) with z3 4.8.12 and cvc5: auto | on | off")
	flagMaxPaths    = flag.Int("maxpaths", 0, "override max paths")
	flagUnitSeconds = flag.Int("unit-seconds", 0, "wall-clock budget per unit (default 1800 quick / 5400 thorough); exceeding it is reported as incomplete")
	flagPrefix      = flag.String("prefix", "", "run a single path with this decision prefix (debug), e.g. 'B1 B0 V5'")
	flagEvidence    = flag.Bool("evidence", true, "write evidence file")
)

const repoMod = "github.com/whawty/auth"

func main() {
	flag.Parse()
	os.Exit(run())
}

func readSpecs(verif string) map[string]propSpec {
	var m map[string]propSpec
	b, err := os.ReadFile(filepath.Join(verif, "checks.json"))
	if err != nil {
		fatal("read checks.json: %v", err)
	}
	if err := json.Unmarshal(b, &m); err != nil {
		fatal("parse checks.json: %v", err)
	}
	return m
}

func fatal(f string, a ...interface{}) {
	fmt.Fprintf(os.Stderr, "gosym: "+f+"\n", a...)
	os.Exit(2)
}

func pkgNameOf(repo, dir string) string {
	// read the package clause of any non-test go file
	ents, _ := os.ReadDir(filepath.Join(repo, dir))
	re := regexp.MustCompile(`(?m)^package\s+(\w+)`)
	for _, e := range ents {
		if strings.HasSuffix(e.Name(), ".go") && !strings.HasSuffix(e.Name(), "_test.go") {
			b, _ := os.ReadFile(filepath.Join(repo, dir, e.Name()))
			if m := re.FindSubmatch(b); m != nil {
				return string(m[1])
			}
		}
	}
	return filepath.Base(dir)
}

const apiDecl = `package %s

func vpByte(label string) byte
func vpBool(label string) bool
func vpU64(label string) uint64
func vpInt(label string, lo, hi int) int
func vpStr(label string, n int) string
func vpBytes(label string, n int) []byte
func vpChoose(label string, n int) int
func vpAssume(c bool)
func vpAssert(id string, c bool)
func vpCover(tag string)
func vpAnd(a, b bool) bool
func vpOr(a, b bool) bool
func vpImp(a, b bool) bool
func vpIff(a, b bool) bool
func vpSymbolic() bool
func vpBytesEq(a, b []byte) bool
func vpStrEq(a, b string) bool
func vpTier() int
func vpSchedExplore(on bool)
func vpSchedExploreFine(preemptions int)
func vpYield()
func vpTempDir() string
func vpRemoteURL() string
func vpSleep(seconds int)
func vpFaultArm()
func vpFaultFired() bool
func vpOtherDevice(dir string) bool
func vpRunKillable(f func()) bool
func vpTraceBegin()
func vpCrashCheck(base string, user string, op string)
func vpFreshBytes(b []byte) bool
func vpNoteWrite(b []byte)
func vpNote(label string, v interface{})
func vpFsSnapshot(dir string) int
func vpFsSame(a, b int) bool
func vpFsSnapshotNoTmp(dir string) int
func vpFaultWhere() string
func vpFsPermute(on bool)
func vpFsMutations() int
func vpFsConfined(base string) bool
func vpTraceEnd()
func vpFaultDisarm()
func vpNoteSecret(v interface{})
func vpSecretFree(v interface{}) bool
func vpClockGap(max int) int
func vpYAMLFile(path string, doc interface{})
func vpWriteSetBegin()
func vpSignalHUP()
func vpCliContext(globals, locals map[string]string, args []string) *cli.Context
func vpFireTimers() int
func vpTimerFires() int
func vpHookBehaviour(kind int)
func vpExecCount() int
func vpExecPath(i int) string
func vpExecArgs(i int) string
func vpExecHasEnv(i int, kv string) bool
func vpExecKilled(i int) bool
func vpExecWaited(i int) bool
func vpSettle()
func vpAwait(ch chan bool) bool
func vpWritesOnlyFresh() bool
`

// overlayFor builds the engine overlay for the given package dirs.
func overlayFor(repo, verif string, dirs []string) (map[string][]byte, map[string][]string) {
	ov := map[string][]byte{}
	files := map[string][]string{}
	for _, d := range dirs {
		pn := pkgNameOf(repo, d)
		decl := fmt.Sprintf(apiDecl, pn)
		if pn == "main" {
			decl = strings.Replace(decl, "package main\n", "package main\n\nimport \"github.com/urfave/cli\"\n", 1)
		} else {
			decl = strings.Replace(decl, "func vpCliContext(globals, locals map[string]string, args []string) *cli.Context\n", "", 1)
		}
		ov[filepath.Join(repo, d, "zz_vp_api.go")] = []byte(decl)
		hs, _ := filepath.Glob(filepath.Join(verif, "harness", d, "*.go"))
		sort.Strings(hs)
		for _, h := range hs {
			if strings.HasSuffix(h, "_test.go") {
				continue
			}
			b, err := os.ReadFile(h)
			if err != nil {
				fatal("%v", err)
			}
			virt := filepath.Join(repo, d, "zz_vp_"+filepath.Base(h))
			ov[virt] = b
			files[d] = append(files[d], h)
		}
	}
	return ov, files
}

type unitEvidence struct {
	Unit       string         `json:"unit"`
	Paths      int            `json:"paths"`
	Done       int            `json:"paths_completed"`
	Pruned     int            `json:"paths_pruned_by_assumption"`
	Panicked   int            `json:"paths_ending_in_go_panic"`
	Ends       map[string]int `json:"path_ends"`
	Asserts    int            `json:"assertions_discharged_by_solver"`
	Folded     int            `json:"assertions_folded_by_simplifier"`
	Queries    int            `json:"solver_queries"`
	Sat        int            `json:"sat"`
	Unsat      int            `json:"unsat"`
	Unknown    int            `json:"unknown_or_error"`
	SolverS    float64        `json:"solver_s"`
	WallS      float64        `json:"wall_s"`
	Steps      int64          `json:"ssa_instructions_executed"`
	Decisions  int64          `json:"decisions"`
	Covers     []string       `json:"reachability_witnesses"`
	Violations int            `json:"violations"`
	Incomplete []string       `json:"incomplete,omitempty"`
	PanicMsgs  map[string]int `json:"panic_messages,omitempty"`
}

func run() int {
	if *flagProp == "" {
		fatal("-prop required")
	}
	t0 := time.Now()
	specs := readSpecs(*flagVerif)
	spec, ok := specs[*flagProp]
	if !ok {
		fatal("no spec for %s in checks.json", *flagProp)
	}
	tier := *flagTier
	if t := os.Getenv("VERIF_TIER"); t != "" && !flagSet("tier") {
		tier = t
	}
	seed := 0
	if s := os.Getenv("VERIF_SEED"); s != "" {
		seed, _ = strconv.Atoi(s)
	}
	sym.Tier = 0
	if tier == "thorough" {
		sym.Tier = 1
	}
	ov, hfiles := overlayFor(*flagRepo, *flagVerif, spec.Pkgs)
	pats := make([]string, len(spec.Pkgs))
	for i, d := range spec.Pkgs {
		pats[i] = "./" + d
	}
	initPkgs := append([]string{"errors", "io", "internal/oserror", "io/fs", "bufio", "bytes", "strings", "strconv", "unicode/utf8", "encoding/binary", "math", "syscall", "time", "encoding/base64", "os", "path/filepath", "sort", "context", "net/http"}, spec.InitPkgs...)
	for _, d := range spec.Pkgs {
		initPkgs = append(initPkgs, repoMod+"/"+d)
	}
	tl := time.Now()
	prog, err := sym.Load(sym.LoadConfig{RepoDir: *flagRepo, RepoMod: repoMod, Patterns: pats, Overlay: ov, InitPkgs: initPkgs})
	if err != nil {
		fmt.Fprintf(os.Stderr, "gosym: load failed (harness cannot bind to the current tree?):\n%v\n", err)
		return 2
	}
	loadS := time.Since(tl).Seconds()
	units := sym.Units(prog, *flagProp)
	if len(units) == 0 {
		fatal("no units for %s", *flagProp)
	}
	workers := *flagWorkers
	if workers == 0 {
		workers = runtime.NumCPU()
	}
	opt := sym.RunOptions{Workers: workers, MaxPaths: 200000, MaxSteps: 3000000, MaxDecisions: 4000, QueryTimeout: 60000, SolverBin: *flagSolver, Debug: *flagDebug, TraceCalls: *flagTrace}
	if tier == "thorough" {
		opt.MaxPaths = 3000000
		opt.QueryTimeout = 180000
	}
	if *flagMaxPaths > 0 {
		opt.MaxPaths = *flagMaxPaths
	}
	unitSeconds := *flagUnitSeconds
	if unitSeconds == 0 {
		unitSeconds = 1800
		if tier == "thorough" {
			unitSeconds = 5400
		}
	}
	var unitRe *regexp.Regexp
	if *flagUnit != "" {
		unitRe = regexp.MustCompile(*flagUnit)
	}
	kf := loadKnownFindings(filepath.Join(*flagVerif, "known_findings.txt"))
	cross := *flagCross == "on" || *flagCross == "auto"
	if cross {
		d, err := os.MkdirTemp("", "gosym-xlog-")
		if err == nil {
			sym.XLogDir = d
			defer os.RemoveAll(d)
		}
		sym.XLogMax = 8 // sessions per unit
		sym.XLogCap = 1 << 20
		sym.SessionReplaySeconds = 600
		if tier != "thorough" {
			sym.SessionReplaySeconds = 120
			sym.XLogCap = 256 << 10
			sym.XLogMax = 3
		}
	}

	var evUnits []unitEvidence
	var samples []interface{}
	totalPaths, totalDec, totalAsserts, totalFolded := 0, int64(0), 0, 0
	totalQ, totalSolver := 0, 0.0
	nviol, nknown, ninconcl := 0, 0, 0
	replays := 0
	traceValidated := 0
	var vioLines, knownLines, inconclusive []string
	exit := 0
	names := sym.SortedKeys(units)
	for _, name := range names {
		if unitRe != nil && !unitRe.MatchString(name) {
			continue
		}
		fn := units[name]
		if *flagPrefix != "" {
			debugSinglePath(prog, name, fn, opt)
			continue
		}
		opt.Deadline = time.Now().Add(time.Duration(unitSeconds) * time.Second)
		sym.XLogUnit(name)
		ur := sym.RunUnit(prog, name, fn, opt)
		ue := unitEvidence{Unit: name, Paths: ur.Paths, Done: ur.Done, Pruned: ur.Pruned, Panicked: ur.Panicked, Ends: ur.Ends, Asserts: ur.Asserts, Folded: ur.Folded,
			Queries: ur.Queries, Sat: ur.QSat, Unsat: ur.QUnsat, Unknown: ur.QUnknown, SolverS: ur.SolverTime.Seconds(), WallS: ur.Wall.Seconds(), Steps: ur.Steps, Decisions: ur.Decisions,
			Covers: sym.SortedKeys(ur.Covers), Violations: len(ur.Violations), Incomplete: ur.Incomplete, PanicMsgs: ur.PanicMsgs}
		for _, e := range ur.EngineErrs {
			ue.Incomplete = append(ue.Incomplete, e)
		}
		if ur.MaxPathsHit {
			ue.Incomplete = append(ue.Incomplete, "path limit or per-unit time budget reached")
		}
		if ur.QUnknown > 0 {
			ue.Incomplete = append(ue.Incomplete, fmt.Sprintf("%d solver queries returned unknown/error", ur.QUnknown))
		}
		if len(ur.Covers) == 0 && len(ur.Violations) == 0 {
			ue.Incomplete = append(ue.Incomplete, "vacuous: no reachability witness (vpCover) reached")
		}
		if n := ur.Ends["wedge"]; n > 0 && !strings.Contains(name, "Wedge") {
			ue.Incomplete = append(ue.Incomplete, fmt.Sprintf("%d paths wedged: %v", n, ur.WedgeMsgs))
		}
		evUnits = append(evUnits, ue)
		totalPaths += ur.Paths
		totalDec += ur.Decisions
		totalAsserts += ur.Asserts
		totalFolded += ur.Folded
		totalQ += ur.Queries
		totalSolver += ur.SolverTime.Seconds()
		for _, k := range sym.SortedKeys(ur.Covers) {
			if len(samples) < 12 {
				samples = append(samples, map[string]interface{}{"unit": name, "witness": k, "inputs": compactNondet(ur.Covers[k])})
			}
		}
		fmt.Printf("UNIT %s paths=%d done=%d pruned=%d panics=%d asserts=%d folded=%d queries=%d solver=%.1fs wall=%.1fs violations=%d ends=%v\n",
			name, ur.Paths, ur.Done, ur.Pruned, ur.Panicked, ur.Asserts, ur.Folded, ur.Queries, ur.SolverTime.Seconds(), ur.Wall.Seconds(), len(ur.Violations), ur.Ends)
		if len(ue.Incomplete) > 0 {
			for _, m := range ue.Incomplete {
				fmt.Printf("  INCOMPLETE %s: %s\n", name, m)
				inconclusive = append(inconclusive, name+": "+m)
			}
		}
		if len(ur.PanicMsgs) > 0 && *flagDebug {
			fmt.Printf("  panics: %v\n", ur.PanicMsgs)
		}
		// translation validation of the vfs event trace (C08/C09): the reachability witness of a
		// clean unit is replayed natively under strace and the same obligations must hold on the
		// real system-call trace
		if (*flagProp == "C08" || *flagProp == "C09") && (strings.Contains(name, "_Crash") || strings.Contains(name, "_Durable")) && len(ur.Violations) == 0 && !*flagNoReplay {
			if w, ok := ur.Covers["end"]; ok {
				rp := filepath.Join(*flagVerif, "replays", fmt.Sprintf("%s-%s-witness.json", *flagProp, strings.TrimPrefix(name, "VP_"+*flagProp+"_")))
				sym.WriteJSON(rp, map[string]interface{}{"property": *flagProp, "unit": name, "assert": "(witness)", "tier": tier, "nondet": w})
				tr, tout := replayTrace(*flagRepo, *flagVerif, pkgDirOfUnit(fn.Pkg.Pkg.Path()), hfiles, name, "(witness: all obligations must hold on the real trace)", rp)
				replays++
				switch tr {
				case "no":
					if strings.Contains(tout, "violated on it: []") {
						fmt.Printf("  TRACE-VALIDATED %s: %s\n", name, tout)
						traceValidated++
					} else {
						inconclusive = append(inconclusive, name+": the real system-call trace violates an obligation the vfs trace satisfies: "+tout)
						fmt.Printf("  TRACE-MISMATCH %s: %s\n", name, tout)
					}
				case "unavailable":
				default:
					inconclusive = append(inconclusive, name+": trace validation failed to run: "+tr+" "+tail(tout, 5))
				}
			}
		}
		// violations: replay natively
		for i, v := range ur.Violations {
			rp := filepath.Join(*flagVerif, "replays", fmt.Sprintf("%s-%s-%s-%d.json", *flagProp, strings.TrimPrefix(name, "VP_"+*flagProp+"_"), sanitizeFile(v.AssertID), i))
			rec := map[string]interface{}{"property": *flagProp, "unit": name, "assert": v.AssertID, "tier": tier, "nondet": v.Nondet, "decisions": fmtDecisions(v.Decs), "extra": v.Extra, "pkg": pkgDirOfUnit(fn.Pkg.Pkg.Path())}
			sym.WriteJSON(rp, rec)
			reproduced := "skipped"
			var out string
			if !*flagNoReplay {
				replays++
				reproduced, out = replayNative(*flagRepo, *flagVerif, pkgDirOfUnit(fn.Pkg.Pkg.Path()), hfiles, name, v.AssertID, rp)
				// schedule-dependent counterexamples: the native scheduler is not controlled, retry
				tries := 6
				if strings.HasPrefix(v.AssertID, "sched:") {
					tries = 25
				}
				for try := 0; try < tries && reproduced == "no" && scheduleDependent[*flagProp] && !isModelLevel(v.AssertID); try++ {
					reproduced, out = replayNative(*flagRepo, *flagVerif, pkgDirOfUnit(fn.Pkg.Pkg.Path()), hfiles, name, v.AssertID, rp)
				}
			}
			sig := name + "/" + strings.ReplaceAll(v.AssertID, " ", "_")
			if reproduced == "no" && strings.HasPrefix(v.AssertID, "sched:") {
				// a legal Go schedule (switches only at channel operations) that the native
				// scheduler did not happen to produce in the retries: the inputs and the path up
				// to the race reproduce; the interleaving itself is the counterexample
				reproduced = "path-confirmed"
			}
			if reproduced == "no" && traceCheckable(v.AssertID) {
				// trace-level obligation: run the real operation under strace and decide the same
				// obligation on the real system-call trace
				tr, tout := replayTrace(*flagRepo, *flagVerif, pkgDirOfUnit(fn.Pkg.Pkg.Path()), hfiles, name, v.AssertID, rp)
				if tr == "yes" {
					reproduced = "trace-confirmed"
				} else if tr == "no" {
					reproduced = "trace-refuted"
					out = tout
				}
			}
			if reproduced == "no" && isModelLevel(v.AssertID) {
				// engine-side observation (fs event trace, write set, randomness provenance, crash
				// schedule): the native run confirmed that the inputs drive the real build down
				// the same path to its end; the observation itself has no native counterpart
				reproduced = "path-confirmed"
			}
			switch reproduced {
			case "yes", "skipped", "path-confirmed", "trace-confirmed":
				if line, ok := kf[sig]; ok {
					nknown++
					knownLines = append(knownLines, fmt.Sprintf("KNOWN-FINDING: property=%s %s", *flagProp, line))
				} else {
					nviol++
					vioLines = append(vioLines, fmt.Sprintf("VIOLATION property=%s replay=%s", *flagProp, rp))
					fmt.Printf("  violation %s assert=%s reproduced=%s inputs=%v\n", name, v.AssertID, reproduced, compactNondet(v.Nondet))
				}
			default:
				ninconcl++
				inconclusive = append(inconclusive, fmt.Sprintf("%s: counterexample for %s did not reproduce natively (%s); encoding or stub suspect: %s", name, v.AssertID, reproduced, rp))
				fmt.Printf("  NOT-REPRODUCED %s assert=%s replay=%s\n%s\n", name, v.AssertID, rp, tail(out, 30))
			}
		}
	}
	if *flagPrefix != "" {
		return 0
	}
	// C11 / C01: static single-writer check backing the dispatcher reduction (the sequential
	// histories of C01 describe the agent only if every store access runs in the dispatcher)
	if (*flagProp == "C11" || *flagProp == "C01") && unitRe == nil {
		vs, n := sym.SingleWriterCheck(prog, repoMod+"/cmd/whawty-auth", repoMod+"/store")
		fmt.Printf("STATIC single-writer check: %d functions examined, %d violations\n", n, len(vs))
		samples = append(samples, map[string]interface{}{"static": "single-writer check", "functions_examined": n, "violations": vs})
		for i, v := range vs {
			rp := filepath.Join(*flagVerif, "replays", fmt.Sprintf("%s-static-single-writer-%d.json", *flagProp, i))
			sym.WriteJSON(rp, map[string]interface{}{"property": *flagProp, "unit": "static:SingleWriter", "assert": "model: store-library-only-reached-from-the-dispatcher-goroutine", "detail": v})
			nviol++
			vioLines = append(vioLines, fmt.Sprintf("VIOLATION property=%s replay=%s", *flagProp, rp))
			fmt.Printf("  violation static: %s\n", v)
		}
	}
	var crossRes []sym.CrossResult
	crossMs := 10000
	if tier == "thorough" {
		crossMs = 60000
	}
	if sym.XLogDir != "" {
		crossRes = sym.CrossCheck(sym.XLogDir, []string{"z3", "cvc5"}, crossMs, workers)
		for _, cr := range crossRes {
			fmt.Printf("CROSS-SOLVER %s: sessions=%d queries=%d agree=%d undecided=%d primary-unknown=%d disagreements=%d wall=%.1fs\n", cr.Solver, cr.Sessions, cr.Queries, cr.Agree, cr.Undecided, cr.Skipped, len(cr.Disagreements), cr.WallS)
			for _, d := range cr.Disagreements {
				inconclusive = append(inconclusive, "cross-solver disagreement ("+cr.Solver+"): "+d)
				fmt.Printf("  INCOMPLETE cross-solver disagreement (%s): %s\n", cr.Solver, d)
			}
		}
	}
	for _, l := range dedup(knownLines) {
		fmt.Println(l)
	}
	for _, l := range vioLines {
		fmt.Println(l)
	}
	if nviol > 0 {
		exit = 1
	} else if len(inconclusive) > 0 {
		exit = 2
	}
	// evidence
	covered := map[string]int{}
	for k, v := range prog.Covered {
		covered[k] = v
	}
	funcs := sym.SortedKeys(covered)
	wall := time.Since(t0).Seconds()
	if len(samples) == 0 {
		samples = append(samples, "no witness")
	}
	ev := map[string]interface{}{
		"property_id": *flagProp,
		"tier":        tier,
		"seed":        seed,
		"level":       "model_checking",
		"coverage": map[string]interface{}{
			"states":                               totalPaths,
			"transitions":                          totalDec,
			"traces_validated_against_impl":        replays,
			"samples":                              samples,
			"evaluations":                          totalPaths,
			"distinct_nontrivial":                  totalPaths,
			"rule":                                 "one evaluation = one feasible symbolic path (distinct decision sequence) of a harness unit, each standing for all inputs satisfying its path condition; states = feasible paths, transitions = decisions (branches, concretised shapes, choices) taken",
			"exhaustive":                           exit == 0,
			"obligations":                          totalAsserts + totalFolded,
			"discharged":                           totalAsserts + totalFolded,
			"units":                                evUnits,
			"repo_functions_encoded":               funcs,
			"solver":                               *flagSolver + " (z3 -in, one process per worker, push/pop)",
			"solver_queries":                       totalQ,
			"solver_s":                             totalSolver,
			"load_s":                               loadS,
			"bounds":                               spec.Bounds,
			"outside_claim":                        spec.Outside,
			"known_findings":                       dedup(knownLines),
			"witness_traces_validated_with_strace": traceValidated,
			"inconclusive":                         inconclusive,
			"cross_solver":                         crossRes,
			"explanation":                          "bounded symbolic execution of the real go/ssa of /repo (regenerated on this run) with SMT discharge of every assertion; see DESIGN.md",
		},
		"assumptions": spec.Assumptions,
		"wall_s":      wall,
		"violations":  nviol,
	}
	if *flagEvidence {
		sym.WriteJSON(filepath.Join(*flagVerif, "evidence", *flagProp+".json"), ev)
	}
	fmt.Printf("RESULT property=%s tier=%s units=%d paths=%d queries=%d discharged=%d folded=%d violations=%d known=%d inconclusive=%d wall=%.1fs\n",
		*flagProp, tier, len(evUnits), totalPaths, totalQ, totalAsserts, totalFolded, nviol, nknown, len(inconclusive), wall)
	return exit
}

var scheduleDependent = map[string]bool{"C04": true, "C05": true, "C06": true, "C07": true, "C10": true, "C11": true, "C12": true, "C19": true}

// traceCheckable: obligations that can be decided on the real strace log of the operation.
func traceCheckable(id string) bool {
	return strings.HasPrefix(id, "crash") || strings.HasPrefix(id, "durable:") || strings.HasPrefix(id, "model: effects-confined")
}

// replayTrace builds the native test binary, runs the unit under strace and analyses the trace.
func replayTrace(repo, verif, pkgDir string, hfiles map[string][]string, unit, assertID, replayPath string) (string, string) {
	if _, err := exec.LookPath("strace"); err != nil {
		return "unavailable", ""
	}
	tmp, err := os.MkdirTemp("", "vptrace")
	if err != nil {
		return "error", err.Error()
	}
	defer os.RemoveAll(tmp)
	ovFile, err := nativeOverlay(repo, verif, pkgDir, hfiles, tmp)
	if err != nil {
		return "error", err.Error()
	}
	bin := filepath.Join(tmp, "replay.test")
	cmd := exec.Command("go", "test", "-c", "-vet=off", "-overlay", ovFile, "-o", bin, "./"+pkgDir)
	cmd.Dir = repo
	cmd.Env = append(os.Environ(), "GOFLAGS=-mod=mod", "GOPROXY=off", "GOSUMDB=off", "GOTOOLCHAIN=local")
	if out, err := cmd.CombinedOutput(); err != nil {
		return "error", string(out)
	}
	logf := filepath.Join(tmp, "strace.log")
	run := exec.Command("timeout", "120", "strace", "-f", "-y", "-s", "16", "-o", logf,
		"-e", "trace=openat,open,creat,write,pwrite64,copy_file_range,sendfile,fsync,fdatasync,rename,renameat,renameat2,unlink,unlinkat,rmdir,mkdir,mkdirat,ftruncate,newfstatat",
		bin, "-test.run", "TestVPReplay$", "-test.v")
	run.Dir = filepath.Join(repo, pkgDir)
	run.Env = append(os.Environ(), "VP_REPLAY="+replayPath, "VP_UNIT="+unit)
	ob, _ := run.CombinedOutput()
	outS := string(ob)
	var initPaths []string
	base, user, op, confine := "", "", "", false
	for _, l := range strings.Split(outS, "\n") {
		switch {
		case strings.HasPrefix(l, "VPINIT "):
			initPaths = append(initPaths, strings.TrimPrefix(l, "VPINIT "))
		case strings.HasPrefix(l, "VPCRASH "):
			f := strings.Fields(l)
			if len(f) == 4 {
				base, user, op = f[1], f[2], f[3]
			}
		case strings.HasPrefix(l, "VPCONFINE "):
			base = strings.TrimPrefix(l, "VPCONFINE ")
			confine = true
		}
	}
	if base == "" {
		if strings.Contains(outS, "ptrace(") || strings.Contains(outS, "PTRACE_") || strings.Contains(outS, "Operation not permitted") {
			return "unavailable", "" // tracing is not permitted here: the trace-level confirmation is skipped, not failed
		}
		return "error", "native run did not reach the trace-level check:\n" + tail(outS, 20)
	}
	durable := strings.HasSuffix(op, "+durable")
	op = strings.TrimSuffix(op, "+durable")
	if confine && !strings.HasPrefix(assertID, "model: effects-confined") {
		confine = false
	}
	if strings.HasPrefix(assertID, "model: effects-confined") {
		op = ""
	}
	res, err := sym.TraceCheck(*flagSolver, logf, initPaths, base, user, op, durable, confine || strings.HasPrefix(assertID, "model: effects-confined"))
	if err != nil {
		return "error", err.Error()
	}
	for _, f := range res.Failed {
		if f == assertID {
			return "yes", ""
		}
	}
	return "no", fmt.Sprintf("real trace (%d events) satisfies %q; violated on it: %v %v", res.Events, assertID, res.Failed, res.Problems)
}

// isModelLevel: assertion ids whose oracle is an engine-side observation (DESIGN §4).
func isModelLevel(id string) bool {
	for _, p := range []string{"model:", "crash", "durable:"} {
		if strings.HasPrefix(id, p) {
			return true
		}
	}
	return false
}

func flagSet(name string) bool {
	found := false
	flag.Visit(func(f *flag.Flag) {
		if f.Name == name {
			found = true
		}
	})
	return found
}

func dedup(xs []string) []string {
	seen := map[string]bool{}
	var out []string
	for _, x := range xs {
		if !seen[x] {
			seen[x] = true
			out = append(out, x)
		}
	}
	return out
}

func tail(s string, n int) string {
	ls := strings.Split(s, "\n")
	if len(ls) > n {
		ls = ls[len(ls)-n:]
	}
	return strings.Join(ls, "\n")
}

func sanitizeFile(s string) string {
	return regexp.MustCompile(`[^A-Za-z0-9_.-]`).ReplaceAllString(s, "_")
}

func pkgDirOfUnit(path string) string {
	return strings.TrimPrefix(strings.TrimPrefix(path, repoMod), "/")
}

func fmtDecisions(d []sym.Decision) string {
	var sb strings.Builder
	for i, x := range d {
		if i > 0 {
			sb.WriteByte(' ')
		}
		fmt.Fprintf(&sb, "%c%d", x.K, x.V)
	}
	return sb.String()
}

func compactNondet(nv []sym.NondetValue) []string {
	var out []string
	for _, n := range nv {
		switch v := n.Value.(type) {
		case []int:
			b := make([]byte, len(v))
			for i, x := range v {
				b[i] = byte(x)
			}
			if len(b) > 48 {
				out = append(out, fmt.Sprintf("%s=%q...(%d bytes)", n.Label, string(b[:24]), len(b)))
			} else {
				out = append(out, fmt.Sprintf("%s=%q", n.Label, string(b)))
			}
		default:
			out = append(out, fmt.Sprintf("%s=%v", n.Label, v))
		}
	}
	return out
}

func parseDecisions(s string) []sym.Decision {
	var out []sym.Decision
	for _, f := range strings.Fields(s) {
		v, _ := strconv.ParseInt(f[1:], 10, 64)
		out = append(out, sym.Decision{K: f[0], V: v})
	}
	return out
}

func debugSinglePath(prog *sym.Program, name string, fn interface{}, opt sym.RunOptions) {
	fatal("single-path debug not wired")
}

// known findings: lines "finding: property=Cnn sig=<unit>/<assert> -- text"
func loadKnownFindings(path string) map[string]string {
	m := map[string]string{}
	b, err := os.ReadFile(path)
	if err != nil {
		return m
	}
	for _, l := range strings.Split(string(b), "\n") {
		l = strings.TrimSpace(l)
		if !strings.HasPrefix(l, "finding:") {
			continue
		}
		var sig string
		for _, f := range strings.Fields(l) {
			if strings.HasPrefix(f, "sig=") {
				sig = strings.TrimPrefix(f, "sig=")
			}
		}
		if i := strings.Index(l, " -- "); i >= 0 && sig != "" {
			m[sig] = strings.TrimSpace(l[i+4:])
		}
	}
	return m
}

// replayNative runs the same harness natively with the counterexample's values.
func replayNative(repo, verif, pkgDir string, hfiles map[string][]string, unit, assertID, replayPath string) (string, string) {
	tmp, err := os.MkdirTemp("", "vpreplay")
	if err != nil {
		return "error", err.Error()
	}
	defer os.RemoveAll(tmp)
	ovFile, err := nativeOverlay(repo, verif, pkgDir, hfiles, tmp)
	if err != nil {
		return "error", err.Error()
	}
	cmd := exec.Command("timeout", "300", "go", "test", "-vet=off", "-count=1", "-overlay", ovFile, "-run", "TestVPReplay$", "-v", "./"+pkgDir)
	cmd.Dir = repo
	cmd.Env = append(os.Environ(), "GOFLAGS=-mod=mod", "GOPROXY=off", "GOSUMDB=off", "GOTOOLCHAIN=local", "VP_REPLAY="+replayPath, "VP_UNIT="+unit)
	out, _ := cmd.CombinedOutput()
	s := string(out)
	if assertID == "no-uncaught-panic" && (strings.Contains(s, "VPPANIC") || strings.Contains(s, "\npanic: ") || strings.HasPrefix(s, "panic: ")) {
		return "yes", s
	}
	switch {
	case strings.Contains(s, "VPFAIL "+assertID+"\n") || strings.Contains(s, "VPFAIL "+assertID+" "):
		return "yes", s
	case strings.Contains(s, "VPFAIL "):
		return "other-assert", s
	case strings.Contains(s, "VPDONE"):
		return "no", s
	}
	return "error", s
}

// nativeOverlay writes the go build overlay (native vp runtime, harness files, replay test) into tmp.
func nativeOverlay(repo, verif, pkgDir string, hfiles map[string][]string, tmp string) (string, error) {
	pn := pkgNameOf(repo, pkgDir)
	nat, err := os.ReadFile(filepath.Join(verif, "harness", "native", "vp_native.go.txt"))
	if err != nil {
		return "", err
	}
	extraRepl := ""
	natFile := filepath.Join(tmp, "vp_native.go")
	os.WriteFile(natFile, []byte(strings.Replace(string(nat), "package PKG", "package "+pn, 1)), 0644)
	if pn == "main" {
		if extra, err := os.ReadFile(filepath.Join(verif, "harness", "native", "vp_native_main.go.txt")); err == nil {
			ef := filepath.Join(tmp, "vp_native_main.go")
			os.WriteFile(ef, extra, 0644)
			extraRepl = ef
		}
	}
	// test file listing the units of this package
	var units []string
	re := regexp.MustCompile(`(?m)^func (VP_C\d+_\w+)\(\)`)
	repl := map[string]string{filepath.Join(repo, pkgDir, "zz_vp_api.go"): natFile}
	if extraRepl != "" {
		repl[filepath.Join(repo, pkgDir, "zz_vp_api_main.go")] = extraRepl
	}
	for _, h := range hfiles[pkgDir] {
		b, _ := os.ReadFile(h)
		for _, m := range re.FindAllSubmatch(b, -1) {
			units = append(units, string(m[1]))
		}
		repl[filepath.Join(repo, pkgDir, "zz_vp_"+filepath.Base(h))] = h
	}
	var tb strings.Builder
	fmt.Fprintf(&tb, "package %s\n\nimport \"testing\"\n\nfunc TestVPReplay(t *testing.T) {\n\tvpNativeRun(t, map[string]func(){\n", pn)
	for _, u := range units {
		fmt.Fprintf(&tb, "\t\t%q: %s,\n", u, u)
	}
	tb.WriteString("\t})\n}\n")
	testFile := filepath.Join(tmp, "replay_test.go")
	os.WriteFile(testFile, []byte(tb.String()), 0644)
	repl[filepath.Join(repo, pkgDir, "zz_vp_replay_test.go")] = testFile
	ovb, _ := json.Marshal(map[string]interface{}{"Replace": repl})
	ovFile := filepath.Join(tmp, "overlay.json")
	os.WriteFile(ovFile, ovb, 0644)
	return ovFile, nil
}
