package store

// C01 — password verdict tracks the last acknowledged write, for every (bounded) history.

import (
	"crypto/sha256"
	"os"
	"path/filepath"
	"time"
)

// vpKey is the key the schema's algorithm actually hashes: argon2id uses the exact bytes;
// hmac_sha256_scrypt goes through PBKDF2-HMAC-SHA256, whose key is the password zero-padded
// to 64 bytes, or its SHA-256 digest if longer than 64 bytes (the equivalence C01 names).
func vpKey(set uint, p string) string {
	if set == 1 {
		return p
	}
	k := []byte(p)
	if len(k) > 64 {
		h := sha256.Sum256(k)
		k = h[:]
	}
	b := make([]byte, 64)
	copy(b, k)
	return string(b)
}

func vpSameKey(set uint, p, q string) bool {
	if set == 1 {
		return p == q
	}
	return vpKey(set, p) == vpKey(set, q)
}

type vpRec struct {
	pw    string
	admin bool
	tLo   int64
	tHi   int64
}

func vpHistLen() int { return 2 + vpTier() }

// VP_C01_History: every history of up to 2 (quick) / 3 (thorough) operations over two users and
// two arbitrary passwords on a fresh store, then every observation the property names.
func VP_C01_History() { vpHistoryOver([]string{"a", "b.c"}, vpHistLen()) }

// VP_C01_NeighbouringNames: the same histories over pairs of users whose names are related the way
// file names are: one is the other plus a dot and a suffix, or plus something that looks like a
// hash-file extension. Each user's verdicts follow that user's own history only.
func VP_C01_NeighbouringNames() {
	pairs := [][]string{{"bob", "bob.smith"}, {"u", "u.user"}, {"u.admin", "u"}, {"ann.x", "ann"}}
	vpHistoryOver(pairs[vpChoose("name-pair", 2+2*vpTier())], 2)
}

func vpHistoryOver(users []string, n int) {
	base := vpMkStoreDir()
	def := uint(1 + vpChoose("default-set", 2))
	d := vpNewDir(base, def)
	pw0len := 3
	if users[0] == "a" {
		pw0len = vpPwLen("pw0len")
	}
	pws := []string{vpStr("pw0", pw0len), vpStr("pw1", 2)}
	model := map[string]*vpRec{}
	for step := 0; step < n; step++ {
		u := users[vpChoose("user", 2)]
		switch vpChoose("op", 4) {
		case 0: // add
			pw := pws[0]
			admin := vpChoose("admin", 2) == 1
			lo := time.Now().Unix()
			err := d.AddUser(u, pw, admin)
			hi := time.Now().Unix()
			vpAssert("add-succeeds-iff-absent", (err == nil) == (model[u] == nil))
			if err == nil {
				model[u] = &vpRec{pw, admin, lo, hi}
			}
		case 1: // update
			pw := pws[1]
			if vpTier() == 1 {
				pw = pws[vpChoose("pw", 2)]
			}
			lo := time.Now().Unix()
			err := d.UpdateUser(u, pw)
			hi := time.Now().Unix()
			vpAssert("update-succeeds-iff-present", (err == nil) == (model[u] != nil))
			if err == nil {
				model[u] = &vpRec{pw, model[u].admin, lo, hi}
			}
		case 2: // set-admin
			admin := vpChoose("admin", 2) == 1
			err := d.SetAdmin(u, admin)
			vpAssert("setadmin-succeeds-iff-present", (err == nil) == (model[u] != nil))
			if err == nil {
				model[u].admin = admin
			}
		case 3: // remove
			d.RemoveUser(u)
			delete(model, u)
		}
	}
	// observations
	for _, u := range users {
		m := model[u]
		ex, adm, err := d.Exists(u)
		vpAssert("exists-agrees-with-history", err == nil && ex == (m != nil) && (m == nil || adm == m.admin))
		for k, p := range pws {
			_ = k
			ok, isAdmin, upg, lc, aerr := d.Authenticate(u, p)
			if m == nil {
				vpAssert("absent-user-never-authenticates", !ok && aerr != nil)
				continue
			}
			vpAssert("authenticates-iff-last-written-password", ok == vpSameKey(def, p, m.pw))
			vpAssert("ok-implies-no-error", vpImp(ok, aerr == nil))
			vpAssert("failure-reports-error", vpImp(!ok, aerr != nil))
			if ok {
				vpAssert("admin-flag-of-current-record", isAdmin == m.admin)
				vpAssert("not-upgradeable-when-written-under-default", !upg)
				vpAssert("last-changed-is-write-time", lc.Unix() >= m.tLo && lc.Unix() <= m.tHi)
			}
		}
		if m != nil {
			// near misses of the stored password
			near := []string{m.pw + "x", m.pw + " ", " " + m.pw}
			if len(m.pw) > 0 {
				near = append(near, m.pw[:len(m.pw)-1], m.pw[1:])
			}
			if len(m.pw) > 8 {
				near = append(near, m.pw[:8])
			}
			for _, p := range near {
				ok, _, _, _, _ := d.Authenticate(u, p)
				vpAssert("near-miss-never-authenticates", ok == vpSameKey(def, p, m.pw))
			}
		}
	}
	lst, lerr := d.List()
	vpAssert("list-ok", lerr == nil)
	vpAssert("list-size-agrees", len(lst) == len(model))
	for u, m := range model {
		e, present := lst[u]
		vpAssert("list-entry-agrees", present && e.IsAdmin == m.admin && e.LastChanged.Unix() >= m.tLo && e.LastChanged.Unix() <= m.tHi)
	}
	vpCover("end")
}

// vpLongPw: a long password: arbitrary first and last two bytes, constant filler between.
func vpLongPw(label string, n int) string {
	b := make([]byte, n)
	for i := range b {
		b[i] = 'p'
	}
	h := vpStr(label+"-head", 2)
	t := vpStr(label+"-tail", 2)
	copy(b, h)
	copy(b[n-2:], t)
	return string(b)
}

// VP_C01_LongPasswords: passwords of 1 KiB and more are hashed whole: truncations at common
// buffer sizes, extensions and a changed last byte never authenticate.
func VP_C01_LongPasswords() {
	base := vpMkStoreDir()
	def := uint(1 + vpChoose("default-set", 2))
	d := vpNewDir(base, def)
	lens := []int{1023, 1024, 1025, 4097}
	n := lens[vpChoose("pwlen", len(lens))]
	pw := vpLongPw("pw", n)
	vpAssert("add-long-password", d.AddUser("u", pw, false) == nil)
	ok, _, _, _, _ := d.Authenticate("u", pw)
	vpAssert("long-password-authenticates", ok)
	last := vpByte("otherlast")
	cands := []string{pw[:n-1], pw + "x", pw[:n-1] + string([]byte{last}), pw[:1023], pw[:512], pw[1:]}
	if n > 1024 {
		cands = append(cands, pw[:1024])
	}
	if n > 4096 {
		cands = append(cands, pw[:4096])
	}
	for _, c := range cands {
		ok, _, _, _, _ := d.Authenticate("u", c)
		vpAssert("long-near-miss-never-authenticates", ok == vpSameKey(def, c, pw))
	}
	vpCover("end")
}

// VP_C01_FailedOperationKeepsVerdict: an operation that fails for an environmental reason (the
// work area cannot be used, or exactly one file-system call of the operation fails) leaves every
// verdict as the last acknowledged write defined it; one that succeeds nevertheless takes effect.
func VP_C01_FailedOperationKeepsVerdict() {
	base := vpMkStoreDir()
	def := uint(1 + vpChoose("default-set", 2))
	d := vpNewDir(base, def)
	pw0, pw1 := vpStr("pw0", 2), vpStr("pw1", 2)
	admin := vpChoose("admin", 2) == 1
	if d.AddUser("a", pw0, admin) != nil {
		panic("setup")
	}
	inject := vpChoose("obstruction", 2) == 1
	if !inject {
		// the work area is a regular file: no temporary file can be created
		os.RemoveAll(filepath.Join(base, ".tmp"))
		if os.WriteFile(filepath.Join(base, ".tmp"), []byte("x"), 0600) != nil {
			panic("setup")
		}
	}
	op := vpChoose("op", 3)
	var err error
	if inject {
		vpFaultArm()
	}
	switch op {
	case 0:
		err = d.UpdateUser("a", pw1)
	case 1:
		err = d.AddUser("b", pw1, false)
	case 2:
		err = d.SetAdmin("a", !admin)
	}
	tag := ""
	if inject {
		vpFaultDisarm()
		call := vpFaultWhere()
		for i := 0; i < len(call); i++ {
			if call[i] == '#' {
				call = call[:i]
				break
			}
		}
		tag = "model: (failing call: " + call + ") "
	}
	ex, adm, eerr := d.Exists("a")
	ok0, _, _, _, _ := d.Authenticate("a", pw0)
	ok1, _, _, _, _ := d.Authenticate("a", pw1)
	okb, _, _, _, _ := d.Authenticate("b", pw1)
	if inject {
		// the outcome is part of the assertion's identity: "the change is completely in place but
		// an error is returned" (a recorded finding) is told apart from any other wrong outcome
		exb, _, _ := d.Exists("b")
		unchanged := ex && adm == admin && ok0 && !exb
		complete := false
		switch op {
		case 0:
			complete = ex && adm == admin && ok1
		case 1:
			complete = okb && ex && adm == admin && ok0
		case 2:
			complete = ex && adm == !admin && ok0
		}
		outcome := "other"
		if unchanged {
			outcome = "unchanged"
		} else if complete {
			outcome = "complete"
		}
		tag = tag[:len(tag)-2] + ", outcome: " + outcome + ") "
	}
	vpAssert(tag+"user-still-exists", eerr == nil && ex)
	switch op {
	case 0:
		if err != nil {
			vpAssert(tag+"failed-update-keeps-the-old-password", ok0 && ok1 == vpSameKey(def, pw1, pw0))
		} else {
			vpAssert(tag+"acknowledged-update-takes-effect", ok1 && ok0 == vpSameKey(def, pw0, pw1))
		}
		vpAssert(tag+"update-keeps-the-admin-flag", adm == admin)
	case 1:
		vpAssert(tag+"add-authenticates-iff-acknowledged", okb == (err == nil))
		vpAssert(tag+"other-user-unaffected-by-add", ok0 && adm == admin)
	case 2:
		vpAssert(tag+"admin-flag-changes-iff-acknowledged", (adm == !admin) == (err == nil))
		vpAssert(tag+"set-admin-keeps-the-password", ok0)
	}
	vpCover("end")
}
