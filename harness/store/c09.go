package store

// C09 — acknowledged changes survive power loss (same machinery as C08; the obligations with
// the "durable:" prefix fix the crash instant after the operation's return).

func VP_C09_DurableAdd() {
	base, d := vpCrashSetup(vpChoose("tmp-exists", 2) == 1, false, false)
	vpTraceBegin()
	err := d.AddUser("u", vpStr("pw", 2), vpChoose("admin", 2) == 1)
	vpTraceEnd()
	vpAssert("add-ok", err == nil)
	vpCrashCheck(base, "u", "add+durable")
	vpCover("end")
}

func VP_C09_DurableUpdate() {
	base, d := vpCrashSetup(vpChoose("tmp-exists", 2) == 1, true, vpChoose("admin", 2) == 1)
	vpTraceBegin()
	err := d.UpdateUser("u", vpStr("pw", 2))
	vpTraceEnd()
	vpAssert("update-ok", err == nil)
	vpCrashCheck(base, "u", "update+durable")
	vpCover("end")
}

func VP_C09_DurableInit() {
	base := vpMkStoreDir()
	d := vpNewDir(base, 1)
	vpTraceBegin()
	err := d.Init("u", vpStr("pw", 2))
	vpTraceEnd()
	vpAssert("init-ok", err == nil)
	vpCrashCheck(base, "u", "init+durable")
	vpCover("end")
}

func VP_C09_DurableSetAdmin() {
	admin := vpChoose("admin", 2) == 1
	base, d := vpCrashSetup(false, true, admin)
	vpTraceBegin()
	err := d.SetAdmin("u", !admin)
	vpTraceEnd()
	vpAssert("setadmin-ok", err == nil)
	vpCrashCheck(base, "u", "setadmin+durable")
	vpCover("end")
}

func VP_C09_DurableRemove() {
	base, d := vpCrashSetup(false, true, vpChoose("admin", 2) == 1)
	vpTraceBegin()
	d.RemoveUser("u")
	vpTraceEnd()
	vpCrashCheck(base, "u", "remove+durable")
	vpCover("end")
}
