package store

// C16 — the store directory stays valid; the consistency check is exact.

import (
	"os"
	"path/filepath"
)

type vpEntry struct {
	name    string
	isDir   bool
	content int // 0 supported record, 1 unsupported text, 2 empty
}

var vpEntryNames = []string{"a.admin", "a.user", "b.admin", "b.user", ".tmp", "a.txt", "a", "a.admin.bak", "b.user.admin", "ab.admin"}

// refCheck is the consistency-check predicate (F.4).
func refCheck(ents []vpEntry) bool {
	hasAdmin := false
	for _, e := range ents {
		if e.name == ".tmp" {
			continue
		}
		ext := filepath.Ext(e.name)
		if ext != ".admin" && ext != ".user" {
			return false
		}
		stem := e.name[:len(e.name)-len(ext)]
		other := ".user"
		if ext == ".user" {
			other = ".admin"
		}
		for _, f := range ents {
			if f.name == stem+other {
				return false
			}
		}
		if ext == ".admin" && !e.isDir && e.content == 0 && refValidName(stem) {
			hasAdmin = true
		}
	}
	return hasAdmin
}

func vpSupportedRecord() string {
	salt := vpBytes("salt", 16)
	return refRecord(1, 1600000000, salt, refDigest(1, vpStr("pw", 1), salt))
}

func vpPopulate(base string, n int) []vpEntry {
	var ents []vpEntry
	rec := vpSupportedRecord()
	for i := 0; i < n; i++ {
		e := vpEntry{name: vpEntryNames[vpChoose("name", len(vpEntryNames))]}
		dup := false
		for _, o := range ents {
			if o.name == e.name {
				dup = true
			}
		}
		if dup {
			continue
		}
		e.isDir = vpChoose("isdir", 2) == 1
		p := filepath.Join(base, e.name)
		if e.isDir {
			if os.Mkdir(p, 0700) != nil {
				panic("setup")
			}
		} else {
			e.content = vpChoose("content", 3)
			c := []string{rec, "argon2id:1:9:QQ==:QQ==\n", ""}[e.content]
			if os.WriteFile(p, []byte(c), 0600) != nil {
				panic("setup")
			}
		}
		ents = append(ents, e)
	}
	return ents
}

// VP_C16_CheckExact: Check() accepts exactly the directories the predicate accepts, for every
// listing order.
func VP_C16_CheckExact() {
	base := vpMkStoreDir()
	d := vpNewDir(base, 1)
	ents := vpPopulate(base, 2+vpTier())
	vpFsPermute(true)
	err := d.Check()
	vpFsPermute(false)
	vpAssert("model: check-accepts-exactly-valid-directories (any listing order)", (err == nil) == refCheck(ents))
	vpCover("end")
}

// VP_C16_InitOnlyOnEmpty: Init succeeds only on an empty directory (a directory .tmp is ignored)
// and produces a valid store.
func VP_C16_InitOnlyOnEmpty() {
	base := vpMkStoreDir()
	d := vpNewDir(base, 1)
	ents := vpPopulate(base, 2+vpTier())
	empty := len(ents) == 0 || (len(ents) == 1 && ents[0].name == ".tmp" && ents[0].isDir)
	vpFsPermute(true)
	err := d.Init("root", vpStr("initpw", 2))
	vpFsPermute(false)
	vpAssert("model: init-succeeds-only-on-empty-directory (any listing order)", vpImp(err == nil, empty))
	vpAssert("model: init-succeeds-on-empty-directory (any listing order)", vpImp(empty, err == nil))
	if err == nil {
		vpAssert("initialised-store-is-valid", d.Check() == nil)
		ex, adm, _ := d.Exists("root")
		vpAssert("admin-created", ex && adm)
	}
	vpCover("end")
}

// VP_C16_OpsPreserveValidity: from a valid store, one operation that does not remove or demote
// the last administrator keeps it valid, never yields two files for a user, leaves .tmp empty.
func VP_C16_OpsPreserveValidity() {
	base := vpMkStoreDir()
	d := vpNewDir(base, 1)
	if d.Init("root", "rootpw") != nil || d.AddUser("u", "upw", false) != nil {
		panic("setup")
	}
	vpAssert("valid-before", d.Check() == nil)
	who := []string{"root", "u", "w"}[vpChoose("who", 3)]
	lastAdminHit := false
	switch vpChoose("op", 4) {
	case 0:
		d.AddUser(who, vpStr("pw", 2), vpChoose("admin", 2) == 1)
	case 1:
		d.UpdateUser(who, vpStr("pw", 2))
	case 2:
		adm := vpChoose("admin", 2) == 1
		d.SetAdmin(who, adm)
		lastAdminHit = who == "root" && !adm
	case 3:
		d.RemoveUser(who)
		lastAdminHit = who == "root"
	}
	if !lastAdminHit {
		vpAssert("still-valid", d.Check() == nil)
	}
	for _, n := range []string{"root", "u", "w"} {
		_, e1 := os.Stat(filepath.Join(base, n+".admin"))
		_, e2 := os.Stat(filepath.Join(base, n+".user"))
		vpAssert("never-two-files-for-one-user", e1 != nil || e2 != nil)
	}
	ents, terr := os.ReadDir(filepath.Join(base, ".tmp"))
	vpAssert("work-area-empty", terr != nil || len(ents) == 0)
	vpCover("end")
}

// VP_C16_FaultLeavesWorkAreaEmptyAndStoreValid: a mutating operation in which exactly one
// file-system call fails (chosen by the engine among all calls of the operation) still leaves
// the work area empty when it returns, and the store valid. The one call whose failure may
// leave a temporary file behind is the removal of that file itself.
// Engine-side fault injection: the assertions are model-level.
func VP_C16_FaultLeavesWorkAreaEmptyAndStoreValid() {
	base := vpMkStoreDir()
	d := vpNewDir(base, 1)
	pw := vpStr("oldpw", 2)
	salt := vpBytes("oldsalt", 16)
	rec := refRecord(1, 1600000000, salt, refDigest(1, pw, salt))
	if os.WriteFile(filepath.Join(base, "u.user"), []byte(rec), 0600) != nil ||
		os.WriteFile(filepath.Join(base, "root.admin"), []byte(vpSupportedRecord()), 0600) != nil {
		panic("setup")
	}
	if vpChoose("tmp-exists", 2) == 1 {
		os.Mkdir(filepath.Join(base, ".tmp"), 0700)
	}
	op := vpChoose("op", 5)
	newpw := vpStr("pw", 2)
	// the failure is either one injected failing call, or (natively reproducible) a work area
	// that cannot be used because .tmp is a regular file
	inject := vpChoose("obstruction", 2) == 0
	if inject {
		vpFaultArm()
	} else {
		os.RemoveAll(filepath.Join(base, ".tmp"))
		os.WriteFile(filepath.Join(base, ".tmp"), []byte("x"), 0600)
	}
	switch op {
	case 0:
		d.AddUser("w", newpw, vpChoose("newadmin", 2) == 1)
	case 1:
		d.UpdateUser("u", newpw)
	case 2:
		d.SetAdmin("u", true)
	case 3:
		d.RemoveUser("u")
	case 4: // the only administrator changes its password
		d.UpdateUser("root", newpw)
	}
	if !inject {
		vpAssert("store-still-valid-with-an-unusable-work-area", d.Check() == nil)
		_, e1 := os.Stat(filepath.Join(base, "u.user"))
		_, e2 := os.Stat(filepath.Join(base, "u.admin"))
		vpAssert("never-two-files-for-one-user", e1 != nil || e2 != nil)
		vpCover("end")
		return
	}
	vpFaultDisarm()
	call := vpFaultWhere()
	for i := 0; i < len(call); i++ {
		if call[i] == '#' {
			call = call[:i]
			break
		}
	}
	names := []string{"add", "update", "setadmin", "remove", "update-of-the-only-admin"}
	ents, terr := os.ReadDir(filepath.Join(base, ".tmp"))
	vpAssert("model: work-area-empty-after-"+names[op]+" (failing call: "+call+")", vpImp(call != "unlink", terr != nil || len(ents) == 0))
	vpAssert("model: store-still-valid-after-"+names[op]+" (failing call: "+call+")", d.Check() == nil)
	_, e1 := os.Stat(filepath.Join(base, "u.user"))
	_, e2 := os.Stat(filepath.Join(base, "u.admin"))
	vpAssert("model: never-two-files-for-one-user (failing call: "+call+")", e1 != nil || e2 != nil)
	vpNote("fault", vpFaultWhere())
	vpCover("end")
}
