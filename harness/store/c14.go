package store

// C14 — written records follow the schema and the configured parameters exactly.

import (
	"crypto/hmac"
	"crypto/sha256"
	"encoding/base64"
	"os"
	"path/filepath"
	"strconv"
	"time"

	"golang.org/x/crypto/argon2"
	"golang.org/x/crypto/scrypt"
)

// vpSplitRecord splits "<fmt>:<ts>:<id>:<salt>:<digest>\n" + rest; ok=false if the shape is wrong.
func vpSplitRecord(content string) (fields [5]string, rest string, ok bool) {
	nl := -1
	for i := 0; i < len(content); i++ {
		if content[i] == '\n' {
			nl = i
			break
		}
	}
	if nl < 0 {
		return fields, "", false
	}
	line := content[:nl]
	rest = content[nl+1:]
	k := 0
	start := 0
	for i := 0; i <= len(line); i++ {
		if i == len(line) || line[i] == ':' {
			if k >= 5 {
				return fields, rest, false
			}
			fields[k] = line[start:i]
			k++
			start = i + 1
		}
	}
	return fields, rest, k == 5
}

// VP_C14_RecordBytesArgon2id: the record written by add / update for an argon2id default set with
// arbitrary configured parameters is exactly what the schema prescribes.
func VP_C14_RecordBytesArgon2id() {
	base := vpMkStoreDir()
	tm := uint32(vpInt("time", 1, 3))
	mem := uint32(vpInt("memory", 1, 64))
	thr := uint8(vpInt("threads", 1, 4))
	ln := uint32([]int{16, 32}[vpChoose("length", 2)])
	h, err := NewArgon2IDHasher(&Argon2IDParams{Time: tm, Memory: mem, Threads: thr, Length: ln})
	if err != nil {
		panic("setup")
	}
	id := uint([]int{1, 7, 4000000000}[vpChoose("setid", 3)])
	d := NewDir(base)
	d.Params[id] = h
	d.Default = id
	pw := vpStr("pw", vpPwLenWide("pwlen"))
	vpNoteSecret(pw)
	admin := vpChoose("admin", 2) == 1
	lo := time.Now().Unix()
	vpAssert("add-ok", d.AddUser("u", pw, admin) == nil)
	if vpChoose("then-update", 2) == 1 {
		pw = vpStr("pw2", 3)
		vpNoteSecret(pw)
		vpAssert("update-ok", d.UpdateUser("u", pw) == nil)
	}
	hi := time.Now().Unix()
	ext := ".user"
	if admin {
		ext = ".admin"
	}
	raw, rerr := os.ReadFile(filepath.Join(base, "u"+ext))
	vpAssert("record-file-exists", rerr == nil)
	f, rest, ok := vpSplitRecord(string(raw))
	vpAssert("single-line-five-fields", ok && rest == "")
	if !ok {
		return
	}
	vpAssert("algorithm-field", f[0] == "argon2id")
	vpAssert("parameter-set-field-is-default", f[2] == strconv.FormatUint(uint64(id), 10))
	ts, terr := strconv.ParseInt(f[1], 10, 64)
	vpAssert("timestamp-is-current-unix-time", terr == nil && ts >= lo && ts <= hi)
	salt, serr := base64.URLEncoding.DecodeString(f[3])
	digest, derr := base64.URLEncoding.DecodeString(f[4])
	vpAssert("base64url-fields", serr == nil && derr == nil)
	vpAssert("salt-and-digest-canonical-base64url", f[3] == base64.URLEncoding.EncodeToString(salt) && f[4] == base64.URLEncoding.EncodeToString(digest))
	vpAssert("salt-size-16", len(salt) == 16)
	vpAssert("model: salt-is-fresh-random", vpFreshBytes(salt))
	want := argon2.IDKey([]byte(pw), salt, tm, mem, thr, ln)
	vpAssert("digest-is-argon2id-of-configured-parameters", vpBytesEq(digest, want))
	vpAssert("model: password-not-in-store", vpSecretFree(raw))
	vpCover("end")
}

// VP_C14_RecordBytesScrypt: same for hmac_sha256_scrypt incl. defaulted r and p.
func VP_C14_RecordBytesScrypt() {
	base := vpMkStoreDir()
	cost := uint(vpInt("cost", 1, 4))
	r := []int{0, -1, 1, 8, 9}[vpChoose("r", 5)]
	p := []int{0, -3, 1, 2}[vpChoose("p", 4)]
	key := vpBytes("hmackey", 32)
	vpNoteSecret(key)
	h, err := NewScryptAuthHasher(&ScryptAuthParams{HmacKeyBase64: base64.StdEncoding.EncodeToString(key), Cost: cost, R: r, P: p})
	vpAssert("hasher-constructed", err == nil)
	if err != nil {
		return
	}
	d := NewDir(base)
	d.Params[3] = h
	d.Default = 3
	pw := vpStr("pw", vpPwLenWide("pwlen"))
	vpNoteSecret(pw)
	lo := time.Now().Unix()
	vpAssert("add-ok", d.AddUser("u", pw, false) == nil)
	hi := time.Now().Unix()
	raw, rerr := os.ReadFile(filepath.Join(base, "u.user"))
	vpAssert("record-file-exists", rerr == nil)
	f, rest, ok := vpSplitRecord(string(raw))
	vpAssert("single-line-five-fields", ok && rest == "")
	if !ok {
		return
	}
	vpAssert("algorithm-field", f[0] == "hmac_sha256_scrypt")
	vpAssert("parameter-set-field-is-default", f[2] == "3")
	ts, terr := strconv.ParseInt(f[1], 10, 64)
	vpAssert("timestamp-is-current-unix-time", terr == nil && ts >= lo && ts <= hi)
	salt, serr := base64.URLEncoding.DecodeString(f[3])
	digest, derr := base64.URLEncoding.DecodeString(f[4])
	vpAssert("base64url-fields", serr == nil && derr == nil)
	vpAssert("salt-size-32", len(salt) == 32)
	vpAssert("model: salt-is-fresh-random", vpFreshBytes(salt))
	er, ep := r, p
	if er <= 0 {
		er = 8
	}
	if ep <= 0 {
		ep = 1
	}
	k, kerr := scrypt.Key([]byte(pw), salt, 1<<cost, er, ep, 32)
	vpAssert("reference-scrypt-ok", kerr == nil)
	m := hmac.New(sha256.New, key)
	m.Write(k)
	vpAssert("digest-is-hmac-sha256-over-scrypt-of-configured-parameters", vpBytesEq(digest, m.Sum(nil)))
	vpAssert("model: password-and-hmac-key-not-in-store", vpSecretFree(raw))
	vpCover("end")
}

// VP_C14_SaltNeverReused: two writes (add then update, or two users) never share a salt.
func VP_C14_SaltNeverReused() {
	base := vpMkStoreDir()
	def := uint(1 + vpChoose("default-set", 2))
	d := vpNewDir(base, def)
	pw := vpStr("pw", 2)
	vpAssert("add-ok", d.AddUser("u", pw, false) == nil)
	r1, _ := os.ReadFile(filepath.Join(base, "u.user"))
	second := "u"
	if vpChoose("second-write", 2) == 0 {
		vpAssert("update-ok", d.UpdateUser("u", pw) == nil)
	} else {
		second = "v"
		vpAssert("add2-ok", d.AddUser("v", pw, false) == nil)
	}
	r2, _ := os.ReadFile(filepath.Join(base, second+".user"))
	f1, _, ok1 := vpSplitRecord(string(r1))
	f2, _, ok2 := vpSplitRecord(string(r2))
	vpAssert("records-wellformed", ok1 && ok2)
	if ok1 && ok2 {
		vpAssert("salt-not-reused", f1[3] != f2[3])
		vpAssert("same-password-different-digest", f1[4] != f2[4])
	}
	vpCover("end")
}

// VP_C14_RewriteStampsCurrentTime: a rewrite names the *current* time and the default set whatever
// the record it replaces says: records dated in the past, at this very second, in the future (a
// store copied from a host whose clock runs ahead) or far in the future; of either parameter set.
func VP_C14_RewriteStampsCurrentTime() {
	base := vpMkStoreDir()
	def := uint(1 + vpChoose("default-set", 2))
	set := uint(1 + vpChoose("record-set", 2))
	d := vpNewDir(base, def)
	opw := vpStr("oldpw", 2)
	salt := vpBytes("salt", refSaltLen(set))
	now := time.Now().Unix()
	oldTs := []int64{1, 1600000000, now, now + 1, now + 86400, 9999999999}[vpChoose("old-record-time", 6)]
	first := refRecord(set, oldTs, salt, refDigest(set, opw, salt))
	if os.WriteFile(filepath.Join(base, "u.user"), []byte(first), 0600) != nil {
		panic("setup")
	}
	ok, _, _, lc, aerr := d.Authenticate("u", opw)
	vpAssert("old-record-is-valid", aerr == nil && ok)
	vpAssert("last-changed-is-the-records-time", lc.Unix() == oldTs)
	pw := vpStr("pw", 2)
	lo := time.Now().Unix()
	vpAssert("update-ok", d.UpdateUser("u", pw) == nil)
	hi := time.Now().Unix()
	raw, rerr := os.ReadFile(filepath.Join(base, "u.user"))
	vpAssert("record-file-exists", rerr == nil)
	f, rest, okk := vpSplitRecord(string(raw))
	vpAssert("single-line-five-fields", okk && rest == "")
	if !okk {
		return
	}
	ts, terr := strconv.ParseInt(f[1], 10, 64)
	vpAssert("rewrite-timestamp-is-current-unix-time", terr == nil && ts >= lo && ts <= hi)
	vpAssert("rewrite-names-the-default-set", f[2] == strconv.FormatUint(uint64(def), 10))
	s2, serr := base64.URLEncoding.DecodeString(f[3])
	vpAssert("rewrite-salt-fresh", serr == nil && vpFreshBytes(s2))
	ok2, _, _, lc2, aerr2 := d.Authenticate("u", pw)
	vpAssert("new-record-authenticates", aerr2 == nil && ok2)
	vpAssert("reported-last-changed-is-the-new-records-time", lc2.Unix() == ts)
	vpCover("end")
}
