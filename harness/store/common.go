package store

// Shared helpers of the store harness units (plain Go; run symbolically and natively).

import (
	"os"
	"path/filepath"
)

const vpHmacKeyB64 = "iN3FKLQR7VCX0eQ45nBYMiPRxN3hiqfmexEfNFbM+L4=" // 32 bytes, standard base64

// vpNewDir builds a store with parameter set 1 = argon2id and 2 = hmac_sha256_scrypt
// (cheap parameters so that native replay is fast) and the given default.
func vpNewDir(base string, def uint) *Dir {
	d := NewDir(base)
	a, err := NewArgon2IDHasher(&Argon2IDParams{Time: 1, Memory: 8, Threads: 1, Length: 32})
	if err != nil {
		panic(err)
	}
	s, err := NewScryptAuthHasher(&ScryptAuthParams{HmacKeyBase64: vpHmacKeyB64, Cost: 2})
	if err != nil {
		panic(err)
	}
	d.Params[1] = a
	d.Params[2] = s
	d.Default = def
	return d
}

func vpMkStoreDir() string {
	base := filepath.Join(vpTempDir(), "store")
	if err := os.Mkdir(base, 0700); err != nil {
		panic(err)
	}
	return base
}

// refValidName is the schema's user-name grammar (F.1), independent of the repo's regexp.
func refValidName(n string) bool {
	if len(n) == 0 {
		return false
	}
	ok := isAlnum(n[0])
	for i := 1; i < len(n); i++ {
		c := n[i]
		ok = vpAnd(ok, vpOr(isAlnum(c), vpOr(vpOr(c == '-', c == '_'), vpOr(c == '.', c == '@'))))
	}
	return ok
}

func isAlnum(c byte) bool {
	return vpOr(vpOr(vpAnd(c >= 'a', c <= 'z'), vpAnd(c >= 'A', c <= 'Z')), vpAnd(c >= '0', c <= '9'))
}

var vpPwLens = []int{0, 3, 65, 64}

// vpPwLen: the length of the arbitrary password: below and above the 64-byte HMAC block (scrypt
// sets normalise longer keys by SHA-256); the thorough tier of the long-password unit adds the
// empty and the exactly-64-byte password.
func vpPwLen(label string) int {
	return []int{3, 65}[vpChoose(label, 2)]
}

func vpPwLenWide(label string) int {
	if vpTier() == 0 {
		return []int{3, 65}[vpChoose(label, 2)]
	}
	return vpPwLens[vpChoose(label, len(vpPwLens))]
}
