package store

// C02 — malformed, unsupported or tampered hash files never authenticate.

import (
	"crypto/hmac"
	"crypto/sha256"
	"encoding/base64"
	"os"
	"path/filepath"
	"strconv"

	"golang.org/x/crypto/argon2"
	"golang.org/x/crypto/scrypt"
)

// refDigest recomputes the schema's digest independently of the repo's hashers
// (parameters as configured by vpNewDir).
func refDigest(set uint, pw string, salt []byte) []byte {
	if set == 1 {
		return argon2.IDKey([]byte(pw), salt, 1, 8, 1, 32)
	}
	key, _ := base64.StdEncoding.DecodeString(vpHmacKeyB64)
	r, p := 8, 1 // the schema's defaults; sets 3 and 4 (vpForeignSets) override one of them each
	if set == 3 {
		r = 4
	}
	if set == 4 {
		p = 3
	}
	k, err := scrypt.Key([]byte(pw), salt, 1<<2, r, p, 32)
	if err != nil {
		panic(err)
	}
	m := hmac.New(sha256.New, key)
	m.Write(k)
	return m.Sum(nil)
}

func refFormatID(set uint) string {
	if set == 1 {
		return "argon2id"
	}
	return "hmac_sha256_scrypt"
}

func refSaltLen(set uint) int {
	if set == 1 {
		return 16
	}
	return 32
}

// refRecord composes a record per doc/SCHEMA.md.
func refRecord(set uint, ts int64, salt, digest []byte) string {
	return refFormatID(set) + ":" + strconv.FormatInt(ts, 10) + ":" + strconv.FormatUint(uint64(set), 10) + ":" +
		base64.URLEncoding.EncodeToString(salt) + ":" + base64.URLEncoding.EncodeToString(digest) + "\n"
}

type vpAuthRes struct {
	ok, admin, upg bool
	lc             int64
	err            error
	panicked       bool
}

// vpAuth calls Authenticate and converts a panic into a result.
func vpAuth(d *Dir, u, pw string) (r vpAuthRes) {
	defer func() {
		if recover() != nil {
			r.panicked = true
		}
	}()
	ok, adm, upg, lc, err := d.Authenticate(u, pw)
	return vpAuthRes{ok, adm, upg, lc.Unix(), err, false}
}

// vpForeignSets adds two scrypt sets that override only r (set 3) or only p (set 4).
func vpForeignSets(d *Dir) {
	h3, err := NewScryptAuthHasher(&ScryptAuthParams{HmacKeyBase64: vpHmacKeyB64, Cost: 2, R: 4})
	if err != nil {
		panic(err)
	}
	h4, err := NewScryptAuthHasher(&ScryptAuthParams{HmacKeyBase64: vpHmacKeyB64, Cost: 2, P: 3})
	if err != nil {
		panic(err)
	}
	d.Params[3] = h3
	d.Params[4] = h4
}

// VP_C02_ForeignRecord: a record produced by an independent implementation of the schema
// authenticates with its password, and only with it; any change of the digest is refused.
func VP_C02_ForeignRecord() {
	base := vpMkStoreDir()
	set := uint(1 + vpChoose("record-set", 4))
	def := uint(1 + vpChoose("default-set", 2))
	d := vpNewDir(base, def)
	vpForeignSets(d)
	pw := vpStr("pw", 3)
	salt := vpBytes("salt", refSaltLen(set))
	digest := refDigest(set, pw, salt)
	const ts = 1700000000
	mut := vpChoose("mutation", 6)
	stored := digest
	switch mut {
	case 1: // one byte of the digest changed
		i := vpInt("pos", 0, 31)
		delta := vpByte("delta")
		vpAssume(delta != 0)
		stored = append([]byte{}, digest...)
		stored[i] ^= delta
	case 2: // digest truncated
		stored = digest[:vpInt("keep", 0, 31)]
	case 3: // digest extended
		stored = append(append([]byte{}, digest...), vpByte("extra"))
	case 4: // digest replaced by a prefix-padded one (same length, tail zeroed)
		stored = append([]byte{}, digest...)
		for i := 16; i < 32; i++ {
			stored[i] = 0
		}
		vpAssume(!vpBytesEq(stored, digest))
	case 5: // digest of another password
		other := vpStr("otherpw", 3)
		vpAssume(other != pw)
		stored = refDigest(set, other, salt)
	}
	ext := ".user"
	if vpChoose("admin", 2) == 1 {
		ext = ".admin"
	}
	if os.WriteFile(filepath.Join(base, "u"+ext), []byte(refRecord(set, ts, salt, stored)), 0600) != nil {
		panic("setup")
	}
	r := vpAuth(d, "u", pw)
	vpAssert("no-panic", !r.panicked)
	if mut == 0 {
		vpAssert("foreign-record-authenticates", r.ok && r.err == nil)
		vpAssert("foreign-record-admin-flag", r.admin == (ext == ".admin"))
		vpAssert("foreign-record-last-changed", r.lc == ts)
		vpAssert("upgradeable-iff-not-default-set", r.upg == (set != def))
		p2 := vpStr("wrongpw", 3)
		r2 := vpAuth(d, "u", p2)
		vpAssert("other-password-refused", r2.ok == vpSameKey(set, p2, pw))
	} else {
		vpAssert("tampered-digest-never-authenticates", !r.ok && r.err != nil)
	}
	vpCover("end")
}

// VP_C02_StructuredMutations: each field of a valid record replaced / reshaped.
func VP_C02_StructuredMutations() {
	base := vpMkStoreDir()
	set := uint(1 + vpChoose("record-set", 2))
	d := vpNewDir(base, 1)
	pw := vpStr("pw", 2)
	salt := vpBytes("salt", refSaltLen(set))
	digest := refDigest(set, pw, salt)
	fid := refFormatID(set)
	tsS := "1700000000"
	pid := strconv.FormatUint(uint64(set), 10)
	sS := base64.URLEncoding.EncodeToString(salt)
	dS := base64.URLEncoding.EncodeToString(digest)
	valid := false
	var rec string
	switch vpChoose("mutation", 14) {
	case 0: // other algorithm's format id with this parameter set
		rec = refFormatID(3-set) + ":" + tsS + ":" + pid + ":" + sS + ":" + dS + "\n"
	case 1: // parameter-set id of the other (configured) set
		rec = fid + ":" + tsS + ":" + strconv.FormatUint(uint64(3-set), 10) + ":" + sS + ":" + dS + "\n"
	case 2: // unknown parameter-set id
		rec = fid + ":" + tsS + ":7:" + sS + ":" + dS + "\n"
	case 3: // arbitrary bytes as timestamp: still the same record iff it is a signed decimal
		t := vpStr("ts", vpInt("tslen", 0, 3))
		rec = fid + ":" + t + ":" + pid + ":" + sS + ":" + dS + "\n"
		valid = refIsDecimal(t, true)
	case 4: // arbitrary bytes as parameter-set id: the same record iff it is a decimal equal to the id
		p := vpStr("pid", vpInt("pidlen", 0, 2))
		rec = fid + ":" + tsS + ":" + p + ":" + sS + ":" + dS + "\n"
		valid = vpAnd(refIsDecimal(p, false), refDecimalValue(p) == int(set))
	case 5: // missing separator between salt and digest
		rec = fid + ":" + tsS + ":" + pid + ":" + sS + dS + "\n"
	case 6: // extra separator / field
		rec = fid + ":" + tsS + ":" + pid + ":" + sS + ":" + dS + ":" + dS + "\n"
	case 7: // fields swapped: a different record, judged by the schema's rule on what it now says
		rec = fid + ":" + tsS + ":" + pid + ":" + dS + ":" + sS + "\n"
		valid = vpBytesEq(refDigest(set, pw, digest), salt)
	case 8: // empty digest
		rec = fid + ":" + tsS + ":" + pid + ":" + sS + ":\n"
	case 9: // empty salt
		rec = fid + ":" + tsS + ":" + pid + "::" + dS + "\n"
	case 10: // arbitrary byte inside the digest text
		b := []byte(dS)
		b[vpInt("pos", 0, len(b)-1)] = vpByte("ch")
		vpAssume(string(b) != dS)
		rec = fid + ":" + tsS + ":" + pid + ":" + sS + ":" + string(b) + "\n"
		// still the same record iff the (non-strict, CR/LF-skipping) base64 text up to the end of
		// the first line decodes to the very same digest bytes; an extra ':' adds a field
		txt := string(b)
		for i := 0; i < len(txt); i++ {
			if txt[i] == '\n' {
				txt = txt[:i]
				break
			}
		}
		colon := false
		for i := 0; i < len(txt); i++ {
			colon = vpOr(colon, txt[i] == ':')
		}
		dec, derr := base64.URLEncoding.DecodeString(txt)
		valid = !colon && derr == nil && vpBytesEq(dec, digest)
	case 11: // standard (non-URL) base64 alphabet for the digest
		rec = fid + ":" + tsS + ":" + pid + ":" + sS + ":" + base64.StdEncoding.EncodeToString(digest) + "\n"
		valid = base64.StdEncoding.EncodeToString(digest) == dS
	case 12: // CR LF line ending and no newline at all still name the same record
		if vpChoose("ending", 2) == 0 {
			rec = fid + ":" + tsS + ":" + pid + ":" + sS + ":" + dS + "\r\n"
		} else {
			rec = fid + ":" + tsS + ":" + pid + ":" + sS + ":" + dS
		}
		valid = true
	case 13: // leading zeros / sign in the numeric fields (accepted by the schema's decimal syntax)
		rec = fid + ":+" + tsS + ":0" + pid + ":" + sS + ":" + dS + "\n"
		valid = true
	}
	if os.WriteFile(filepath.Join(base, "u.user"), []byte(rec), 0600) != nil {
		panic("setup")
	}
	r := vpAuth(d, "u", pw)
	vpAssert("no-panic", !r.panicked)
	if !valid {
		vpAssert("mutated-record-never-authenticates", !r.ok && r.err != nil)
	} else {
		vpAssert("equivalent-record-authenticates", r.ok)
	}
	vpCover("end")
}

// refIsDecimal: one or more ASCII digits, optionally signed.
func refIsDecimal(s string, signed bool) bool {
	if signed && len(s) > 0 && (s[0] == '+' || s[0] == '-') {
		s = s[1:]
	}
	if len(s) == 0 {
		return false
	}
	ok := true
	for i := 0; i < len(s); i++ {
		ok = vpAnd(ok, vpAnd(s[i] >= '0', s[i] <= '9'))
	}
	return ok
}

func refDecimalValue(s string) int {
	v := 0
	for i := 0; i < len(s); i++ {
		v = v*10 + int(s[i]-'0')
	}
	return v
}

// VP_C02_RawContent: arbitrary bytes, and a valid algorithm prefix followed by arbitrary bytes.
func VP_C02_RawContent() {
	base := vpMkStoreDir()
	d := vpNewDir(base, 1)
	var content string
	switch vpChoose("family", 4) {
	case 0:
		content = vpStr("raw", vpInt("rawlen", 0, 4+2*vpTier()))
	case 1:
		content = "argon2id:" + vpStr("tail", vpInt("taillen", 0, 4+2*vpTier()))
	case 2:
		content = "hmac_sha256_scrypt:" + vpStr("tail", vpInt("taillen", 0, 3+2*vpTier()))
	case 3: // reaches the parameter-set lookup and both base64 decoders with arbitrary short fields
		ids := []string{"argon2id:1:1:", "hmac_sha256_scrypt:1:2:", "argon2id:1:2:"}
		content = ids[vpChoose("idprefix", len(ids))] + vpStr("fields", vpInt("fieldslen", 0, 5+2*vpTier()))
	}
	if os.WriteFile(filepath.Join(base, "u.admin"), []byte(content), 0600) != nil {
		panic("setup")
	}
	pw := vpStr("pw", 1)
	r := vpAuth(d, "u", pw)
	vpAssert("no-panic", !r.panicked)
	// within these lengths no content can be a complete record with a 32-byte digest
	vpAssert("short-content-never-authenticates", !r.ok && r.err != nil)
	vpCover("end")
}

// VP_C02_UnsupportedTable: files with unsupported hashes are handled as the schema prescribes.
func VP_C02_UnsupportedTable() {
	base := vpMkStoreDir()
	d := vpNewDir(base, 1)
	if d.AddUser("adm", "admpw", true) != nil {
		panic("setup")
	}
	var content string
	switch vpChoose("kind", 5) {
	case 0:
		content = "" // empty reservation
	case 1:
		content = "bcrypt:1700000000:1:c2FsdA==:aGFzaA==\n" // unknown algorithm
	case 2:
		content = "argon2id:1700000000:9:c2FsdA==:aGFzaA==\n" // unknown parameter set
	case 3:
		content = "argon2id:1700000000:1:c2FsdA==:\n" // invalid hash (empty digest)
	case 4:
		content = vpStr("raw", 4) + "\naux line\n"
	}
	ext := ".user"
	if vpChoose("admin", 2) == 1 {
		ext = ".admin"
	}
	path := filepath.Join(base, "u"+ext)
	if os.WriteFile(path, []byte(content), 0600) != nil {
		panic("setup")
	}
	before := vpFsSnapshot(base)
	lst, lerr := d.List()
	_, listed := lst["u"]
	vpAssert("hidden-from-list", lerr == nil && !listed && len(lst) == 1)
	full, ferr := d.ListFull()
	fu, inFull := full["u"]
	vpAssert("shown-as-unsupported-by-list-full", ferr == nil && inFull && !fu.IsSupported && fu.IsValid && fu.IsAdmin == (ext == ".admin"))
	vpAssert("add-says-already-exists", d.AddUser("u", "newpw", false) != nil)
	vpAssert("update-refused", d.UpdateUser("u", "newpw") != nil)
	r := vpAuth(d, "u", "newpw")
	vpAssert("never-authenticates", !r.ok && !r.panicked)
	vpAssert("refused-operations-leave-store-byte-identical", vpFsSame(before, vpFsSnapshot(base)))
	ex, adm, eerr := d.Exists("u")
	vpAssert("exists-reports-it", eerr == nil && ex && adm == (ext == ".admin"))
	d.RemoveUser("u")
	_, serr := os.Stat(path)
	vpAssert("remove-deletes-it", serr != nil)
	vpCover("end")
}

// VP_C02_LongLine: first lines longer than any I/O buffer: a record padded (leading zeros in the
// timestamp) to end exactly at / around 4096 bytes still authenticates, and the same record
// followed by an extra field on the same line is malformed, however long the line is.
func VP_C02_LongLine() {
	base := vpMkStoreDir()
	set := uint(1 + vpChoose("record-set", 2))
	d := vpNewDir(base, 1)
	pw := vpStr("pw", 2)
	salt := vpBytes("salt", refSaltLen(set))
	digest := refDigest(set, pw, salt)
	plain := refRecord(set, 1700000000, salt, digest)
	ends := []int{4095, 4096, 4097, 8192, 8193}
	end := ends[vpChoose("recordend", len(ends))]
	pad := end - (len(plain) - 1)
	zeros := make([]byte, pad)
	for i := range zeros {
		zeros[i] = '0'
	}
	fid := refFormatID(set)
	body := fid + ":" + string(zeros) + plain[len(fid)+1:len(plain)-1] // without the newline
	extra := vpChoose("extra-field", 2) == 1
	rec := body + "\n"
	if extra {
		rec = body + ":" + vpStr("garbage", 2) + "\n"
	}
	if os.WriteFile(filepath.Join(base, "u.user"), []byte(rec+"aux\n"), 0600) != nil {
		panic("setup")
	}
	r := vpAuth(d, "u", pw)
	vpAssert("no-panic", !r.panicked)
	if extra {
		vpAssert("overlong-line-with-extra-field-never-authenticates", !r.ok)
		before := vpFsSnapshot(base)
		vpAssert("overlong-malformed-update-refused", d.UpdateUser("u", "new") != nil)
		vpAssert("overlong-malformed-left-byte-identical", vpFsSame(before, vpFsSnapshot(base)))
		lst, _ := d.List()
		vpAssert("overlong-malformed-hidden-from-list", len(lst) == 0)
	} else {
		vpAssert("overlong-valid-record-authenticates", r.ok)
	}
	vpCover("end")
}
