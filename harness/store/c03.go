package store

// C03 — only schema-valid user names are usable; all effects stay inside the base dir.

import (
	"os"
	"path/filepath"
)

// vpUserName: an arbitrary byte string, optionally behind a prefix that reaches the sibling store
// (a 13-byte "../other/root" is out of reach of purely arbitrary short strings).
func vpUserName() string {
	prefixes := []string{"", "../other/", "/", "adm/../", "../store/"}
	np := 2
	if vpTier() == 1 {
		np = len(prefixes)
	}
	p := prefixes[vpChoose("prefix", np)]
	return p + vpStr("user", vpInt("namelen", 0, 3+2*vpTier()))
}

// vpTwoStores: <root>/store (under test, admin "adm") and a sibling <root>/other (admin "root",
// user "x"), both with known passwords.
func vpTwoStores() (root, base, sib string, d *Dir) {
	root = vpTempDir()
	base = filepath.Join(root, "store")
	sib = filepath.Join(root, "other")
	if os.Mkdir(base, 0700) != nil || os.Mkdir(sib, 0700) != nil {
		panic("setup")
	}
	d = vpNewDir(base, 1)
	ds := vpNewDir(sib, 1)
	if d.AddUser("adm", "admpw", true) != nil || ds.AddUser("root", "rootpw", true) != nil || ds.AddUser("x", "xpw", false) != nil {
		panic("setup")
	}
	return
}

// VP_C03_EntryPoints: an arbitrary byte string as user name through every store entry point.
func VP_C03_EntryPoints() {
	root, base, sib, d := vpTwoStores()
	u := vpUserName()
	valid := refValidName(u)
	pw := "rootpw"
	if vpChoose("pwkind", 2) == 1 {
		pw = "xpw"
	}
	fresh := filepath.Join(root, "fresh")
	if os.Mkdir(fresh, 0700) != nil {
		panic("setup")
	}
	confined := base
	sibBefore := vpFsSnapshot(sib)
	rootBefore := vpFsSnapshot(root)
	vpTraceBegin()
	op := vpChoose("op", 7)
	switch op {
	case 0:
		err := d.AddUser(u, pw, vpChoose("admin", 2) == 1)
		vpAssert("add-with-invalid-name-fails", vpImp(!valid, err != nil))
	case 1:
		err := d.UpdateUser(u, pw)
		vpAssert("update-with-invalid-name-fails", vpImp(!valid, err != nil))
	case 2:
		err := d.SetAdmin(u, vpChoose("admin", 2) == 1)
		vpAssert("setadmin-with-invalid-name-fails", vpImp(!valid, err != nil))
	case 3:
		d.RemoveUser(u)
	case 4:
		ex, _, _ := d.Exists(u)
		vpAssert("invalid-name-never-exists", vpImp(!valid, !ex))
	case 5:
		ok, _, _, _, _ := d.Authenticate(u, pw)
		vpAssert("invalid-name-never-authenticates", vpImp(!valid, !ok))
	case 6: // init needs an empty directory: a third store next to the two
		confined = fresh
		err := vpNewDir(fresh, 1).Init(u, pw)
		vpAssert("init-with-invalid-name-fails", vpImp(!valid, err != nil))
	}
	vpTraceEnd()
	vpAssert("model: effects-confined-to-base-dir", vpFsConfined(confined))
	vpAssert("sibling-store-untouched", vpFsSame(sibBefore, vpFsSnapshot(sib)))
	vpAssert("invalid-name-changes-nothing", vpImp(!valid, vpFsSame(rootBefore, vpFsSnapshot(root))))
	vpCover("end")
}

// VP_C03_InvalidNamedFiles: a file with an arbitrary (creatable) name and a supported admin hash
// never counts as the administrator a valid store requires, and is never listed.
func VP_C03_InvalidNamedFiles() {
	root := vpTempDir()
	base := filepath.Join(root, "store")
	tmpl := filepath.Join(root, "tmpl")
	if os.Mkdir(base, 0700) != nil || os.Mkdir(tmpl, 0700) != nil {
		panic("setup")
	}
	dt := vpNewDir(tmpl, 1)
	if dt.AddUser("adm", "admpw", true) != nil {
		panic("setup")
	}
	rec, err := os.ReadFile(filepath.Join(tmpl, "adm.admin"))
	if err != nil {
		panic("setup")
	}
	n := vpStr("name", vpInt("namelen", 1, 3))
	for i := 0; i < len(n); i++ {
		vpAssume(n[i] != '/' && n[i] != 0)
	}
	vpAssume(n != "." && n != "..")
	ext := ".admin"
	if vpChoose("ext", 2) == 1 {
		ext = ".user"
	}
	if os.WriteFile(filepath.Join(base, n+ext), rec, 0600) != nil {
		panic("setup")
	}
	d := vpNewDir(base, 1)
	valid := refValidName(n)
	cerr := d.Check()
	// the only file is n+ext: the store is valid iff it is a valid-named admin
	vpAssert("invalid-named-file-is-not-the-required-admin", vpImp(cerr == nil, valid && ext == ".admin"))
	vpAssert("valid-named-admin-satisfies-check", vpImp(valid && ext == ".admin", cerr == nil))
	lst, lerr := d.List()
	vpAssert("list-ok", lerr == nil)
	_, listed := lst[n]
	vpAssert("listed-iff-valid-name", listed == valid)
	vpAssert("nothing-else-listed", len(lst) <= 1 && vpImp(!valid, len(lst) == 0))
	vpCover("end")
}

// vpOthers: name -> content of every entry of dir other than the target's two files and .tmp.
func vpOthers(dir, user string) map[string]string {
	out := map[string]string{}
	ents, _ := os.ReadDir(dir)
	for _, e := range ents {
		n := e.Name()
		if n == ".tmp" || n == user+".user" || n == user+".admin" {
			continue
		}
		b, _ := os.ReadFile(filepath.Join(dir, n))
		out[n] = string(b)
	}
	return out
}

func vpSameMap(a, b map[string]string) bool {
	if len(a) != len(b) {
		return false
	}
	for k, v := range a {
		if w, ok := b[k]; !ok || w != v {
			return false
		}
	}
	return true
}

// VP_C03_OnlyTheTargetsOwnFiles: valid names (and base directories) that contain what looks like
// an extension: every operation touches <base>/<name>.user, <base>/<name>.admin and the work
// area only - no other entry of the base directory, nothing in the sibling store.
func VP_C03_OnlyTheTargetsOwnFiles() {
	root := vpTempDir()
	base := filepath.Join(root, "corp.users", "auth")
	sib := filepath.Join(root, "corp.admins", "auth")
	if os.MkdirAll(base, 0700) != nil || os.MkdirAll(sib, 0700) != nil {
		panic("setup")
	}
	d, ds := vpNewDir(base, 1), vpNewDir(sib, 1)
	users := []string{"alice", "backup.user", "ops.admins", "john@lists.users.example.org"}
	if d.AddUser("adm", "admpw", true) != nil || ds.AddUser("root", "rootpw", true) != nil {
		panic("setup")
	}
	for _, u := range users {
		if d.AddUser(u, "pw-"+u, false) != nil {
			panic("setup")
		}
	}
	u := users[vpChoose("user", len(users))]
	sibBefore := vpFsSnapshot(sib)
	before := vpOthers(base, u)
	var err error
	switch vpChoose("op", 4) {
	case 0:
		err = d.SetAdmin(u, true)
		if err == nil && vpChoose("and-back", 2) == 1 {
			err = d.SetAdmin(u, false)
		}
	case 1:
		err = d.UpdateUser(u, vpStr("newpw", 2))
	case 2:
		d.RemoveUser(u)
	case 3:
		err = d.AddUser(u, "again", false) // exists already: refused
	}
	_ = err
	vpAssert("other-entries-of-the-base-directory-untouched", vpSameMap(before, vpOthers(base, u)))
	vpAssert("sibling-store-untouched", vpFsSame(sibBefore, vpFsSnapshot(sib)))
	ex, _, _ := d.Exists(u)
	_, e1 := os.Stat(filepath.Join(base, u+".user"))
	_, e2 := os.Stat(filepath.Join(base, u+".admin"))
	vpAssert("the-user-exists-iff-one-of-its-own-files-does", ex == (e1 == nil || e2 == nil))
	vpCover("end")
}
