package store

// C15 — operations touch only their target; failures and read-only calls change nothing.

import (
	"os"
	"path/filepath"
)

func vpAux() string {
	n := vpInt("auxlen", 0, 4+2*vpTier())
	return vpStr("aux", n)
}

// VP_C15_AuxAndBystanders: update keeps the target's auxiliary bytes and every other file;
// set-admin keeps the whole record.
func VP_C15_AuxAndBystanders() {
	base := vpMkStoreDir()
	def := uint(1 + vpChoose("default-set", 2))
	set := uint(1 + vpChoose("record-set", 2))
	d := vpNewDir(base, def)
	pw := vpStr("pw", 2)
	salt := vpBytes("salt", refSaltLen(set))
	first := refRecord(set, 1600000000, salt, refDigest(set, pw, salt))
	aux := vpAux()
	admin := vpChoose("admin", 2) == 1
	ext, oext := ".user", ".admin"
	if admin {
		ext, oext = ".admin", ".user"
	}
	if os.WriteFile(filepath.Join(base, "u"+ext), []byte(first+aux), 0600) != nil {
		panic("setup")
	}
	by := vpStr("bystander", 3)
	if os.WriteFile(filepath.Join(base, "v.user"), []byte(by), 0600) != nil || os.Mkdir(filepath.Join(base, ".tmp"), 0700) != nil {
		panic("setup")
	}
	switch vpChoose("op", 2) {
	case 0:
		npw := vpStr("newpw", 2)
		vpAssert("update-ok", d.UpdateUser("u", npw) == nil)
		raw, err := os.ReadFile(filepath.Join(base, "u"+ext))
		vpAssert("target-still-there", err == nil)
		f, rest, ok := vpSplitRecord(string(raw))
		vpAssert("new-first-line-wellformed", ok)
		vpAssert("auxiliary-data-preserved-byte-for-byte", rest == aux)
		if ok {
			vpAssert("rewritten-under-default-set", f[0] == refFormatID(def))
		}
		_, oerr := os.Stat(filepath.Join(base, "u"+oext))
		vpAssert("extension-unchanged", oerr != nil)
		r := vpAuth(d, "u", npw)
		vpAssert("new-password-works", r.ok && r.admin == admin)
	case 1:
		vpAssert("setadmin-ok", d.SetAdmin("u", !admin) == nil)
		raw, err := os.ReadFile(filepath.Join(base, "u"+oext))
		vpAssert("record-moved-to-other-extension", err == nil)
		vpAssert("whole-record-preserved", string(raw) == first+aux)
		_, oerr := os.Stat(filepath.Join(base, "u"+ext))
		vpAssert("old-name-gone", oerr != nil)
	}
	b2, berr := os.ReadFile(filepath.Join(base, "v.user"))
	vpAssert("bystander-untouched", berr == nil && string(b2) == by)
	ents, _ := os.ReadDir(filepath.Join(base, ".tmp"))
	vpAssert("work-area-empty-afterwards", len(ents) == 0)
	vpCover("end")
}

// VP_C15_ReadOnlyCallsDoNotMutate: authenticate / exists / list / list-full / check perform no
// file-system mutation, whatever the directory holds.
func VP_C15_ReadOnlyCallsDoNotMutate() {
	base := vpMkStoreDir()
	d := vpNewDir(base, 2) // default differs from the record's set: the hash is upgradeable
	pw := vpStr("pw", 2)
	salt := vpBytes("salt", 16)
	rec := refRecord(1, 1600000000, salt, refDigest(1, pw, salt))
	if os.WriteFile(filepath.Join(base, "adm.admin"), []byte(rec+vpAux()), 0600) != nil {
		panic("setup")
	}
	if os.WriteFile(filepath.Join(base, "junk.user"), []byte(vpStr("junk", 3)), 0600) != nil {
		panic("setup")
	}
	if vpChoose("with-tmp", 2) == 1 {
		os.Mkdir(filepath.Join(base, ".tmp"), 0700)
	}
	before := vpFsSnapshot(base)
	vpTraceBegin()
	switch vpChoose("call", 6) {
	case 0:
		r := vpAuth(d, "adm", pw)
		vpAssert("right-password-authenticates-as-upgradeable", r.ok && r.upg)
	case 1:
		vpAuth(d, "adm", vpStr("wrong", 2))
	case 2:
		d.Exists([]string{"adm", "junk", "nobody"}[vpChoose("who", 3)])
	case 3:
		d.List()
	case 4:
		d.ListFull()
	case 5:
		d.Check()
	}
	vpTraceEnd()
	vpAssert("model: no-mutating-file-system-event", vpFsMutations() == 0)
	vpAssert("directory-byte-identical", vpFsSame(before, vpFsSnapshot(base)))
	vpCover("end")
}
