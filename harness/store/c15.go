package store

// C15 — operations touch only their target; failures and read-only calls change nothing.

import (
	"os"
	"path/filepath"
)

func vpAux() string {
	{
		// auxiliary data larger than the reader's buffer (4096) and, in the thorough tier, than one
		// copy chunk (32 KiB)
		if k := vpChoose("aux-size", 2+vpTier()); k > 0 {
			b := make([]byte, []int{0, 5000, 40000}[k])
			for i := range b {
				b[i] = 'x'
				if i%64 == 63 {
					b[i] = '\n'
				}
			}
			e := vpStr("aux-ends", 2)
			b[0], b[len(b)-1] = e[0], e[1]
			return string(b)
		}
	}
	n := vpInt("auxlen", 0, 4+2*vpTier())
	return vpStr("aux", n)
}

// VP_C15_AuxAndBystanders: update keeps the target's auxiliary bytes and every other file;
// set-admin keeps the whole record.
func VP_C15_AuxAndBystanders() {
	base := vpMkStoreDir()
	def := uint(1 + vpChoose("default-set", 2))
	set := uint(1 + vpChoose("record-set", 2))
	d := vpNewDir(base, def)
	pw := vpStr("pw", 2)
	salt := vpBytes("salt", refSaltLen(set))
	first := refRecord(set, 1600000000, salt, refDigest(set, pw, salt))
	aux := vpAux()
	admin := vpChoose("admin", 2) == 1
	// the target's name may itself contain what looks like an extension (dots are legal in names);
	// the users whose names differ from it only in that part are bystanders like any other
	u := []string{"u", "ann.user.x", "ann.admin.x"}[vpChoose("target-name", 3)]
	ext, oext := ".user", ".admin"
	if admin {
		ext, oext = ".admin", ".user"
	}
	if os.WriteFile(filepath.Join(base, u+ext), []byte(first+aux), 0600) != nil {
		panic("setup")
	}
	by := vpStr("bystander", 3)
	if os.WriteFile(filepath.Join(base, "v.user"), []byte(by), 0600) != nil || os.Mkdir(filepath.Join(base, ".tmp"), 0700) != nil {
		panic("setup")
	}
	var twins []string
	for _, t := range []string{"ann.user.x", "ann.admin.x"} {
		if t != u {
			for _, e := range []string{".user", ".admin"} {
				twins = append(twins, t+e)
				if os.WriteFile(filepath.Join(base, t+e), []byte(by), 0600) != nil {
					panic("setup")
				}
			}
		}
	}
	switch vpChoose("op", 2) {
	case 0:
		npw := vpStr("newpw", 2)
		vpAssert("update-ok", d.UpdateUser(u, npw) == nil)
		raw, err := os.ReadFile(filepath.Join(base, u+ext))
		vpAssert("target-still-there", err == nil)
		f, rest, ok := vpSplitRecord(string(raw))
		vpAssert("new-first-line-wellformed", ok)
		vpAssert("auxiliary-data-preserved-byte-for-byte", rest == aux)
		if ok {
			vpAssert("rewritten-under-default-set", f[0] == refFormatID(def))
		}
		_, oerr := os.Stat(filepath.Join(base, u+oext))
		vpAssert("extension-unchanged", oerr != nil)
		r := vpAuth(d, u, npw)
		vpAssert("new-password-works", r.ok && r.admin == admin)
	case 1:
		vpAssert("setadmin-ok", d.SetAdmin(u, !admin) == nil)
		raw, err := os.ReadFile(filepath.Join(base, u+oext))
		vpAssert("record-moved-to-other-extension", err == nil)
		vpAssert("whole-record-preserved", string(raw) == first+aux)
		_, oerr := os.Stat(filepath.Join(base, u+ext))
		vpAssert("old-name-gone", oerr != nil)
	}
	b2, berr := os.ReadFile(filepath.Join(base, "v.user"))
	vpAssert("bystander-untouched", berr == nil && string(b2) == by)
	for _, t := range twins {
		b3, terr := os.ReadFile(filepath.Join(base, t))
		vpAssert("similarly-named-users-untouched", terr == nil && string(b3) == by)
	}
	ents, _ := os.ReadDir(filepath.Join(base, ".tmp"))
	vpAssert("work-area-empty-afterwards", len(ents) == 0)
	vpCover("end")
}

// VP_C15_ReadOnlyCallsDoNotMutate: authenticate / exists / list / list-full / check perform no
// file-system mutation, whatever the directory holds.
func VP_C15_ReadOnlyCallsDoNotMutate() {
	base := vpMkStoreDir()
	d := vpNewDir(base, 2) // default differs from the record's set: the hash is upgradeable
	pw := vpStr("pw", 2)
	salt := vpBytes("salt", 16)
	rec := refRecord(1, 1600000000, salt, refDigest(1, pw, salt))
	if os.WriteFile(filepath.Join(base, "adm.admin"), []byte(rec+vpAux()), 0600) != nil {
		panic("setup")
	}
	if os.WriteFile(filepath.Join(base, "junk.user"), []byte(vpStr("junk", 3)), 0600) != nil {
		panic("setup")
	}
	if vpChoose("with-tmp", 2) == 1 {
		os.Mkdir(filepath.Join(base, ".tmp"), 0700)
	}
	before := vpFsSnapshot(base)
	vpTraceBegin()
	switch vpChoose("call", 6) {
	case 0:
		r := vpAuth(d, "adm", pw)
		vpAssert("right-password-authenticates-as-upgradeable", r.ok && r.upg)
	case 1:
		vpAuth(d, "adm", vpStr("wrong", 2))
	case 2:
		d.Exists([]string{"adm", "junk", "nobody"}[vpChoose("who", 3)])
	case 3:
		d.List()
	case 4:
		d.ListFull()
	case 5:
		d.Check()
	}
	vpTraceEnd()
	vpAssert("model: no-mutating-file-system-event", vpFsMutations() == 0)
	vpAssert("directory-byte-identical", vpFsSame(before, vpFsSnapshot(base)))
	vpCover("end")
}

// VP_C15_SingleFault: every mutating operation with exactly one injected system-call failure
// (the failing call is chosen by the engine among all file-system calls of the operation): an
// operation that reports failure leaves the store (outside the work area) exactly as it was.
// Engine-side fault injection: the assertions are model-level (no native counterpart).
func VP_C15_SingleFault() {
	base := vpMkStoreDir()
	d := vpNewDir(base, 1)
	pw := vpStr("oldpw", 2)
	salt := vpBytes("oldsalt", 16)
	rec := refRecord(1, 1600000000, salt, refDigest(1, pw, salt)) + vpAux()
	admin := vpChoose("admin", 2) == 1
	ext := ".user"
	if admin {
		ext = ".admin"
	}
	if os.WriteFile(filepath.Join(base, "u"+ext), []byte(rec), 0600) != nil ||
		os.WriteFile(filepath.Join(base, "root.admin"), []byte(vpSupportedRecord()), 0600) != nil {
		panic("setup")
	}
	if vpChoose("tmp-exists", 2) == 1 {
		os.Mkdir(filepath.Join(base, ".tmp"), 0700)
	}
	before := vpFsSnapshotNoTmp(base)
	op := vpChoose("op", 4)
	newpw := vpStr("pw", 2)
	vpFaultArm()
	var err error
	switch op {
	case 0:
		err = d.AddUser("w", newpw, vpChoose("newadmin", 2) == 1)
	case 1:
		err = d.UpdateUser("u", newpw)
	case 2:
		err = d.SetAdmin("u", !admin)
	case 3:
		d.RemoveUser("u")
	}
	vpFaultDisarm()
	fired := vpFaultFired()
	same := vpFsSame(before, vpFsSnapshotNoTmp(base))
	// is the change completely in place (as after a successful run)?
	complete := false
	switch op {
	case 0:
		r := vpAuth(d, "w", newpw)
		complete = r.ok
	case 1:
		r := vpAuth(d, "u", newpw)
		complete = r.ok
	case 2:
		ex, adm, _ := d.Exists("u")
		complete = ex && adm == !admin
	}
	names := []string{"add", "update", "setadmin", "remove"}
	if op != 3 {
		vpAssert("model: without-a-fault-the-operation-succeeds", vpImp(!fired, err == nil))
		vpAssert("model: failed-"+names[op]+"-leaves-no-partial-state", vpImp(err != nil, vpOr(same, complete)))
		call := vpFaultWhere() // e.g. "fsync#..": the kind of the failing call keys the finding
		for i := 0; i < len(call); i++ {
			if call[i] == '#' {
				call = call[:i]
				break
			}
		}
		vpAssert("model: "+names[op]+"-reports-failure-only-if-nothing-changed (failing call: "+call+")", vpImp(err != nil, same))
		// ... and nothing of the attempt stays behind in the work area (unless it is the removal itself that failed)
		ents, terr := os.ReadDir(filepath.Join(base, ".tmp"))
		vpAssert("model: failed-"+names[op]+"-leaves-nothing-in-the-work-area (failing call: "+call+")", vpImp(err != nil && call != "unlink", terr != nil || len(ents) == 0))
	}
	// whatever happened, the other users' records are intact
	by, berr := os.ReadFile(filepath.Join(base, "root.admin"))
	vpAssert("bystander-intact", berr == nil && len(by) > 0)
	vpNote("fault", vpFaultWhere())
	vpCover("end")
}
