package store

import "encoding/base64"

func VP_DBG_B64() {
	x := vpBytes("x", 16)
	s := base64.URLEncoding.EncodeToString(x)
	y, err := base64.URLEncoding.DecodeString(s)
	vpNote("y0", y[0])
	vpNote("y1", y[1])
	vpNote("y2", y[2])
	vpNote("s0", s[0])
	vpAssert("noerr", err == nil)
	vpAssert("roundtrip", vpBytesEq(x, y))
	vpCover("end")
}
