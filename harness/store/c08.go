package store

// C08 / C09 — crash and power-loss behaviour of the mutating operations, decided on the
// file-system event trace the real code produces (vpCrashCheck: crash instant, persistence of
// every directory operation and of every written chunk are solver variables).

import (
	"os"
	"path/filepath"
)

func vpCrashSetup(withTmp bool, existing bool, admin bool) (base string, d *Dir) {
	base = vpMkStoreDir()
	def := uint(1 + vpChoose("default-set", 2))
	d = vpNewDir(base, def)
	if withTmp {
		os.Mkdir(filepath.Join(base, ".tmp"), 0700)
	}
	// a bystander so that "other users' files untouched" is not vacuous
	os.WriteFile(filepath.Join(base, "other.admin"), []byte(vpSupportedRecord()), 0600)
	if existing {
		ext := ".user"
		if admin {
			ext = ".admin"
		}
		set := uint(1 + vpChoose("record-set", 2))
		pw := vpStr("oldpw", 2)
		salt := vpBytes("oldsalt", refSaltLen(set))
		rec := refRecord(set, 1600000000, salt, refDigest(set, pw, salt)) + vpAux()
		if os.WriteFile(filepath.Join(base, "u"+ext), []byte(rec), 0600) != nil {
			panic("setup")
		}
	}
	return
}

func VP_C08_CrashAdd() {
	base, d := vpCrashSetup(vpChoose("tmp-exists", 2) == 1, false, false)
	vpTraceBegin()
	err := d.AddUser("u", vpStr("pw", 2), vpChoose("admin", 2) == 1)
	vpTraceEnd()
	vpAssert("add-ok", err == nil)
	vpCrashCheck(base, "u", "add")
	vpCover("end")
}

func VP_C08_CrashUpdate() {
	base, d := vpCrashSetup(vpChoose("tmp-exists", 2) == 1, true, vpChoose("admin", 2) == 1)
	vpTraceBegin()
	err := d.UpdateUser("u", vpStr("pw", 2))
	vpTraceEnd()
	vpAssert("update-ok", err == nil)
	vpCrashCheck(base, "u", "update")
	vpCover("end")
}

func VP_C08_CrashInit() {
	base := vpMkStoreDir()
	d := vpNewDir(base, 1)
	if vpChoose("tmp-exists", 2) == 1 {
		os.Mkdir(filepath.Join(base, ".tmp"), 0700)
	}
	vpTraceBegin()
	err := d.Init("u", vpStr("pw", 2))
	vpTraceEnd()
	vpAssert("init-ok", err == nil)
	vpCrashCheck(base, "u", "init")
	vpCover("end")
}
