package store

// C08 / C09 — crash and power-loss behaviour of the mutating operations, decided on the
// file-system event trace the real code produces (vpCrashCheck: crash instant, persistence of
// every directory operation and of every written chunk are solver variables).

import (
	"os"
	"path/filepath"
)

func vpCrashSetup(withTmp bool, existing bool, admin bool) (base string, d *Dir) {
	base = vpMkStoreDir()
	def := uint(1 + vpChoose("default-set", 2))
	d = vpNewDir(base, def)
	if withTmp {
		os.Mkdir(filepath.Join(base, ".tmp"), 0700)
	}
	// a bystander so that "other users' files untouched" is not vacuous
	os.WriteFile(filepath.Join(base, "other.admin"), []byte(vpSupportedRecord()), 0600)
	if existing {
		ext := ".user"
		if admin {
			ext = ".admin"
		}
		set := uint(1 + vpChoose("record-set", 2))
		pw := vpStr("oldpw", 2)
		salt := vpBytes("oldsalt", refSaltLen(set))
		rec := refRecord(set, 1600000000, salt, refDigest(set, pw, salt)) + vpAux()
		if os.WriteFile(filepath.Join(base, "u"+ext), []byte(rec), 0600) != nil {
			panic("setup")
		}
	}
	return
}

func VP_C08_CrashAdd() {
	base, d := vpCrashSetup(vpChoose("tmp-exists", 2) == 1, false, false)
	vpTraceBegin()
	err := d.AddUser("u", vpStr("pw", 2), vpChoose("admin", 2) == 1)
	vpTraceEnd()
	vpAssert("add-ok", err == nil)
	vpCrashCheck(base, "u", "add")
	vpCover("end")
}

func VP_C08_CrashUpdate() {
	base, d := vpCrashSetup(vpChoose("tmp-exists", 2) == 1, true, vpChoose("admin", 2) == 1)
	vpTraceBegin()
	err := d.UpdateUser("u", vpStr("pw", 2))
	vpTraceEnd()
	vpAssert("update-ok", err == nil)
	vpCrashCheck(base, "u", "update")
	vpCover("end")
}

func VP_C08_CrashInit() {
	base := vpMkStoreDir()
	d := vpNewDir(base, 1)
	if vpChoose("tmp-exists", 2) == 1 {
		os.Mkdir(filepath.Join(base, ".tmp"), 0700)
	}
	vpTraceBegin()
	err := d.Init("u", vpStr("pw", 2))
	vpTraceEnd()
	vpAssert("init-ok", err == nil)
	vpCrashCheck(base, "u", "init")
	vpCover("end")
}

// VP_C08_KilledThenInspected: the process is killed before any one of the operation's mutating
// file-system calls (one path per kill point, plus the completed run) and the directory it leaves
// is then *used*: the real Check, Authenticate and ReadDir run on it. Complements vpCrashCheck (an
// SMT encoding over names and inodes) with the clauses that are about behaviour after the crash: a
// store that passed the consistency check still passes it; the old password works until the new
// one does and no third one ever works; other users' files are untouched; the only residue is in
// the work area.
func VP_C08_KilledThenInspected() {
	op := vpChoose("op", 2) // 0 add, 1 update
	admin := vpChoose("admin", 2) == 1
	base := vpMkStoreDir()
	def := uint(1 + vpChoose("default-set", 2))
	d := vpNewDir(base, def)
	// the work area: absent, present, or present on another file system (a tmpfs mount or a link
	// to one): rename then fails with EXDEV and whatever the code does instead is under test
	otherDev := false
	switch vpChoose("work-area", 3) {
	case 1:
		os.Mkdir(filepath.Join(base, ".tmp"), 0700)
	case 2:
		os.Mkdir(filepath.Join(base, ".tmp"), 0700)
		otherDev = vpOtherDevice(filepath.Join(base, ".tmp"))
	}
	os.WriteFile(filepath.Join(base, "other.admin"), []byte(vpSupportedRecord()), 0600)
	ext := ".user"
	if admin {
		ext = ".admin"
	}
	target := filepath.Join(base, "u"+ext)
	opw := vpStr("oldpw", 2)
	npw := vpStr("pw", 2)
	third := vpStr("thirdpw", 2)
	for _, set := range []uint{1, 2} {
		vpAssume(!vpSameKey(set, opw, npw))
		vpAssume(!vpSameKey(set, opw, third))
		vpAssume(!vpSameKey(set, npw, third))
	}
	aux := ""
	if op == 1 {
		set := uint(1 + vpChoose("record-set", 2))
		salt := vpBytes("oldsalt", refSaltLen(set))
		aux = vpAux()
		if os.WriteFile(target, []byte(refRecord(set, 1600000000, salt, refDigest(set, opw, salt))+aux), 0600) != nil {
			panic("setup")
		}
		r0 := vpAuth(d, "u", opw)
		vpAssert("old-password-works-before", r0.err == nil && r0.ok)
	}
	vpAssert("store-valid-before", d.Check() == nil)
	before, _ := os.ReadFile(target)
	otherBefore, _ := os.ReadFile(filepath.Join(base, "other.admin"))
	var err error
	killed := vpRunKillable(func() {
		if op == 0 {
			err = d.AddUser("u", npw, admin)
		} else {
			err = d.UpdateUser("u", npw)
		}
	})
	if !killed && !otherDev {
		vpAssert("operation-ok", err == nil)
	}
	// --- the directory as the next process finds it ---
	d2 := vpNewDir(base, def)
	vpAssert("model: kill: store still passes the consistency check", d2.Check() == nil)
	after, rerr := os.ReadFile(target)
	rn := vpAuth(d2, "u", npw)
	ro := vpAuth(d2, "u", opw)
	r3 := vpAuth(d2, "u", third)
	vpAssert("model: kill: authenticate never crashes on the post-crash store", !rn.panicked && !ro.panicked && !r3.panicked)
	newOK := rn.err == nil && rn.ok
	oldOK := ro.err == nil && ro.ok
	if op == 0 {
		absentOrEmpty := rerr != nil || len(after) == 0
		vpAssert("model: kill: add leaves absent, empty reservation or the complete new record", absentOrEmpty || newOK)
		vpAssert("model: kill: nothing but the new password works after an add", !oldOK)
		if !killed && err == nil {
			vpAssert("completed-add-authenticates", newOK && rn.admin == admin)
		}
	} else {
		vpAssert("model: kill: the record is the complete old or the complete new one", rerr == nil && (string(after) == string(before) || newOK))
		vpAssert("model: kill: old password works until the new one does", oldOK != newOK)
		if newOK {
			_, newRest, ok2 := vpSplitRecord(string(after))
			vpAssert("model: kill: new record comes with all auxiliary lines", ok2 && newRest == aux)
		}
		if !killed && err == nil {
			vpAssert("completed-update-authenticates", newOK)
		}
		if !killed && err != nil {
			vpAssert("failed-update-keeps-the-old-record", string(after) == string(before))
		}
	}
	vpAssert("model: kill: no third password ever works", !(r3.err == nil && r3.ok))
	otherAfter, oerr := os.ReadFile(filepath.Join(base, "other.admin"))
	vpAssert("model: kill: other users' files untouched", oerr == nil && string(otherAfter) == string(otherBefore))
	ents, _ := os.ReadDir(base)
	for _, e := range ents {
		n := e.Name()
		vpAssert("model: kill: residue only in the work area", n == ".tmp" || n == "other.admin" || n == "u"+ext)
	}
	vpCover("end")
}
