package main

// Shared harness helpers for the agent package (plain Go; symbolic and native).

import (
	"bytes"
	"encoding/json"
	"errors"
	"io"
	"net/http"
	"time"

	lib "github.com/whawty/auth/store"
)

// vpBody is a JSON request body. Natively it serves the marshalled document; under gosym the
// json.Decoder model reads the document tree directly (struct tags of the target are honoured).
type vpBody struct {
	doc       interface{}
	malformed bool
	raw       []byte
	pos       int
	size      int // size of the text (engine: arbitrary within the bound; natively len(raw))
}

// vpMaxBody: request bodies up to this size are in scope (two 256-byte fields, every byte
// written as a \uXXXX escape, plus framing).
const vpMaxBody = 4096

func vpJSON(doc map[string]interface{}) *vpBody {
	raw, _ := json.Marshal(doc)
	// the text of a JSON document is not unique (escapes, insignificant white space): its size
	// is arbitrary above the minimum
	min := 2
	for k, v := range doc {
		min += len(k) + 4
		if s, ok := v.(string); ok {
			min += len(s) + 2
		} else {
			min += 4
		}
	}
	size := vpInt("bodysize", min, vpMaxBody)
	if !vpSymbolic() {
		if pad := size - len(raw); pad > 0 { // leading white space: the decoder has to read all of it
			raw = append(bytes.Repeat([]byte{' '}, pad), raw...)
		}
	}
	return &vpBody{doc: doc, raw: raw, size: size}
}

func vpMalformedJSON() *vpBody { return &vpBody{malformed: true, raw: []byte("{x")} }

func (b *vpBody) Read(p []byte) (int, error) {
	if b.pos >= len(b.raw) {
		return 0, io.EOF
	}
	n := copy(p, b.raw[b.pos:])
	b.pos += n
	return n, nil
}
func (b *vpBody) Close() error { return nil }

// vpRecorder is an http.ResponseWriter recorder.
type vpRecorder struct {
	hdr     http.Header
	status  int
	body    []byte
	encoded []interface{}
	panicked bool
}

func vpNewRecorder() *vpRecorder { return &vpRecorder{hdr: http.Header{}} }
func (r *vpRecorder) Header() http.Header { return r.hdr }
func (r *vpRecorder) WriteHeader(s int) {
	if r.status == 0 {
		r.status = s
	}
}
func (r *vpRecorder) Write(p []byte) (int, error) {
	if r.status == 0 {
		r.status = 200
	}
	r.body = append(r.body, p...)
	return len(p), nil
}
func (r *vpRecorder) vpEncoded(v interface{}) { r.encoded = append(r.encoded, v) }

// disclosedList reports whether the response carries a non-empty user list.
func (r *vpRecorder) disclosedList() bool {
	if vpSymbolic() {
		for _, e := range r.encoded {
			switch x := e.(type) {
			case *webListResponse:
				if len(x.List) > 0 {
					return true
				}
			case *webListFullResponse:
				if len(x.List) > 0 {
					return true
				}
			}
		}
		return false
	}
	var m map[string]json.RawMessage
	if json.Unmarshal(r.body, &m) != nil {
		return false
	}
	l, ok := m["list"]
	return ok && string(l) != "null" && string(l) != "{}"
}

// sessionOf extracts the session token of an authenticate response.
func (r *vpRecorder) sessionOf() string {
	if vpSymbolic() {
		for _, e := range r.encoded {
			if x, ok := e.(*webAuthenticateResponse); ok {
				return x.Session
			}
		}
		return ""
	}
	var m struct {
		Session string `json:"session"`
	}
	json.Unmarshal(r.body, &m)
	return m.Session
}

type vpCall struct {
	kind     string
	user     string
	password string
	admin    bool
}

// vpFake is a scripted store behind the real Store channel interface: a dispatcher goroutine
// written in the harness records every request and answers as scripted.
type vpFake struct {
	calls   []vpCall
	authOK  bool
	authAdm bool
	authErr error
	mutErr  error
	list    lib.UserList
	full    lib.UserListFull
}

func (f *vpFake) count(kind string) int {
	n := 0
	for _, c := range f.calls {
		if c.kind == kind {
			n++
		}
	}
	return n
}

func (f *vpFake) mutations() int {
	return f.count("add") + f.count("remove") + f.count("update") + f.count("setadmin") + f.count("init")
}

func (f *vpFake) last(kind string) vpCall {
	for i := len(f.calls) - 1; i >= 0; i-- {
		if f.calls[i].kind == kind {
			return f.calls[i]
		}
	}
	return vpCall{}
}

func vpFakeStore(f *vpFake) *Store {
	initCh := make(chan initRequest, 1)
	checkCh := make(chan checkRequest, 1)
	addCh := make(chan addRequest, 10)
	removeCh := make(chan removeRequest, 10)
	updateCh := make(chan updateRequest, 10)
	setAdminCh := make(chan setAdminRequest, 10)
	listCh := make(chan listRequest, 10)
	listFullCh := make(chan listFullRequest, 10)
	authCh := make(chan authenticateRequest, 10)
	go func() {
		for {
			select {
			case r := <-initCh:
				f.calls = append(f.calls, vpCall{"init", r.username, r.password, true})
				r.response <- initResult{f.mutErr}
			case r := <-checkCh:
				f.calls = append(f.calls, vpCall{kind: "check"})
				r.response <- checkResult{nil}
			case r := <-addCh:
				f.calls = append(f.calls, vpCall{"add", r.username, r.password, r.isAdmin})
				r.response <- addResult{f.mutErr}
			case r := <-removeCh:
				f.calls = append(f.calls, vpCall{"remove", r.username, "", false})
				r.response <- removeResult{f.mutErr}
			case r := <-updateCh:
				f.calls = append(f.calls, vpCall{"update", r.username, r.password, false})
				r.response <- updateResult{f.mutErr}
			case r := <-setAdminCh:
				f.calls = append(f.calls, vpCall{"setadmin", r.username, "", r.isAdmin})
				r.response <- setAdminResult{f.mutErr}
			case r := <-listCh:
				f.calls = append(f.calls, vpCall{kind: "list"})
				r.response <- listResult{f.list, nil}
			case r := <-listFullCh:
				f.calls = append(f.calls, vpCall{kind: "listfull"})
				r.response <- listFullResult{f.full, nil}
			case r := <-authCh:
				f.calls = append(f.calls, vpCall{"authenticate", r.username, r.password, false})
				r.response <- authenticateResult{ok: f.authOK, isAdmin: f.authAdm, upgradeable: false, lastChanged: time.Unix(1600000000, 0), err: f.authErr}
			}
		}
	}()
	return &Store{initChan: initCh, checkChan: checkCh, addChan: addCh, removeChan: removeCh, updateChan: updateCh,
		setAdminChan: setAdminCh, listChan: listCh, listFullChan: listFullCh, authenticateChan: authCh}
}

// vpScriptStore draws an arbitrary store behaviour.
func vpScriptStore() *vpFake {
	f := &vpFake{}
	f.authOK = vpBool("store-auth-ok")
	f.authAdm = vpBool("store-auth-admin")
	if vpChoose("store-auth-err", 2) == 1 {
		f.authErr = errors.New("store error")
	}
	if vpChoose("store-mut-err", 2) == 1 {
		f.mutErr = errors.New("store refuses")
	}
	f.list = lib.UserList{"alice": lib.User{IsAdmin: true}}
	f.full = lib.UserListFull{"alice": lib.UserFull{IsAdmin: true, IsValid: true, IsSupported: true}}
	return f
}
