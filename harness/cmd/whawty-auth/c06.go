package main

// C06 — web API: management actions require the right session or password.

import (
	"net/http"
	"time"
)

type vpCred struct {
	session  string
	valid    bool // unexpired token of this instance
	admin    bool
	user     string
	describe string
}

// vpCredential draws one of the credential kinds the property lists.
func vpCredential(f *webSessionFactory) vpCred {
	other, err := NewWebSessionFactory(vpLifetime * time.Second)
	if err != nil {
		panic("setup")
	}
	switch vpChoose("credential", 8) {
	case 0:
		return vpCred{describe: "none"}
	case 1:
		return vpCred{session: vpStr("garbage", 1+vpChoose("garbagelen", 4)), describe: "garbage"}
	case 2:
		_, _, s := f.Generate("bob", true)
		return vpCred{session: s, valid: true, admin: true, user: "bob", describe: "admin session"}
	case 3:
		_, _, s := f.Generate("bob", false)
		return vpCred{session: s, valid: true, admin: false, user: "bob", describe: "ordinary-user session"}
	case 4:
		_, _, s := f.Generate("bob", true)
		vpSleep(vpLifetime + 2)
		return vpCred{session: s, user: "bob", describe: "expired admin session"}
	case 5:
		_, _, s := other.Generate("bob", true)
		return vpCred{session: s, user: "bob", describe: "other-instance admin session"}
	case 6:
		_, _, s := f.Generate("bob", true)
		b := []byte(s)
		p := vpMutPos(len(b), 16)
		c := vpByte("tamper")
		vpAssume(c != b[p])
		b[p] = c
		// a re-encoding that decodes to the same bytes is the same token: exclude it
		n1, c1, ok1 := vpDecodeToken(s)
		n2, c2, ok2 := vpDecodeToken(string(b))
		vpAssume(!(ok1 && ok2 && vpBytesEq(n1, n2) && vpBytesEq(c1, c2)))
		return vpCred{session: string(b), user: "bob", describe: "tampered admin session"}
	default:
		_, _, s := f.Generate("", true)
		return vpCred{session: s, valid: true, admin: true, user: "", describe: "admin session of the empty user"}
	}
}

func vpReqWith(body *vpBody) *http.Request {
	return &http.Request{Method: "POST", Header: http.Header{}, Body: body, RemoteAddr: "vp"}
}

func vpPick(label string, opts ...string) string { return opts[vpChoose(label, len(opts))] }

type vpHandler func(*Store, *webSessionFactory, http.ResponseWriter, *http.Request)

// vpServe calls a handler the way net/http does: a panic aborts the connection without a status.
func vpServe(h vpHandler, st *Store, f *webSessionFactory, rec *vpRecorder, r *http.Request) {
	defer func() {
		if recover() != nil {
			rec.panicked = true
		}
	}()
	h(st, f, rec, r)
}

// VP_C06_AdminOnlyEndpoints: add, remove, set-admin, list, list-full.
func VP_C06_AdminOnlyEndpoints() {
	f, err := NewWebSessionFactory(vpLifetime * time.Second)
	if err != nil {
		panic("setup")
	}
	cred := vpCredential(f)
	fake := vpScriptStore()
	st := vpFakeStore(fake)
	user := vpPick("username", "", "eve", "bob")
	pw := vpPick("password", "", "secret")
	adm := vpChoose("admin-field", 2) == 1
	doc := map[string]interface{}{}
	if cred.describe != "none" {
		doc["session"] = cred.session
	}
	if vpChoose("username-present", 2) == 1 {
		doc["username"] = user
	} else {
		user = ""
	}
	doc["password"] = pw
	doc["admin"] = adm
	body := vpJSON(doc)
	switch vpChoose("body-shape", 3) {
	case 1:
		body = vpMalformedJSON()
	case 2:
		doc["username"] = 5 // wrong type
		body = vpJSON(doc)
	}
	rec := vpNewRecorder()
	ep := vpChoose("endpoint", 5)
	// a wrongly typed "username" only matters to the endpoints that have that field
	wellformed := !body.malformed && (doc["username"] != 5 || ep >= 3)
	handlers := []vpHandler{handleWebAdd, handleWebRemove, handleWebSetAdmin, handleWebList, handleWebListFull}
	kinds := []string{"add", "remove", "setadmin", "list", "listfull"}
	vpServe(handlers[ep], st, f, rec, vpReqWith(body))
	kind := kinds[ep]
	vpAssert("handler-does-not-panic", !rec.panicked)
	authorised := wellformed && cred.valid && cred.admin && cred.session != ""
	switch kind {
	case "add":
		authorised = authorised && user != "" && pw != ""
	case "remove", "setadmin":
		authorised = authorised && user != ""
	}
	took := fake.count(kind) > 0
	vpAssert("management-call-only-if-authorised", vpImp(took, authorised))
	vpAssert("authorised-request-reaches-the-store", vpImp(authorised, fake.count(kind) == 1))
	vpAssert("no-other-store-request", len(fake.calls) == fake.count(kind))
	if took && (kind == "add" || kind == "remove" || kind == "setadmin") {
		c := fake.last(kind)
		vpAssert("store-call-carries-the-request-arguments", c.user == user && (kind != "add" || c.password == pw) && (kind == "remove" || c.admin == adm))
	}
	vpAssert("refused-request-gets-non-success-status", vpImp(!authorised, rec.status != 200 && rec.status != 0))
	vpAssert("refused-request-discloses-no-list", vpImp(!authorised, !rec.disclosedList()))
	vpAssert("success-status-only-if-store-succeeded", vpImp(rec.status == 200, authorised && (fake.mutErr == nil || kind == "list" || kind == "listfull")))
	vpCover("end")
}

// VP_C06_Update: exactly one of session / old password; non-admin session only for itself;
// old password re-authenticated.
func VP_C06_Update() {
	f, err := NewWebSessionFactory(vpLifetime * time.Second)
	if err != nil {
		panic("setup")
	}
	cred := vpCredential(f)
	fake := vpScriptStore()
	st := vpFakeStore(fake)
	target := vpPick("username", "", "bob", "eve", "Bob")
	oldpw := vpPick("oldpassword", "", "old")
	newpw := vpPick("newpassword", "", "new")
	doc := map[string]interface{}{"username": target}
	if cred.describe != "none" {
		doc["session"] = cred.session
	}
	if oldpw != "" || vpChoose("oldpassword-present", 2) == 1 {
		doc["oldpassword"] = oldpw
	}
	doc["newpassword"] = newpw
	body := vpJSON(doc)
	if vpChoose("body-shape", 2) == 1 {
		body = vpMalformedJSON()
	}
	rec := vpNewRecorder()
	vpServe(handleWebUpdate, st, f, rec, vpReqWith(body))
	vpAssert("handler-does-not-panic", !rec.panicked)
	bySession := cred.session != "" && oldpw == "" && newpw != "" && cred.valid && (cred.admin || cred.user == target)
	byPassword := cred.session == "" && oldpw != "" && fake.authOK && fake.authErr == nil && newpw != ""
	authorised := !body.malformed && target != "" && (bySession || byPassword)
	took := fake.count("update") > 0
	vpAssert("update-only-if-authorised", vpImp(took, authorised))
	vpAssert("authorised-update-reaches-the-store", vpImp(authorised, fake.count("update") == 1))
	if took {
		c := fake.last("update")
		vpAssert("update-carries-target-and-new-password", c.user == target && c.password == newpw)
	}
	if fake.count("authenticate") > 0 {
		a := fake.last("authenticate")
		vpAssert("old-password-checked-for-the-target", a.user == target && a.password == oldpw && cred.session == "")
	}
	vpAssert("no-other-mutation", fake.mutations() == fake.count("update"))
	// the only request that succeeds without a store change is the documented password-only probe
	probe := !body.malformed && target != "" && cred.session == "" && oldpw != "" && newpw == "" && fake.authOK && fake.authErr == nil
	vpAssert("refused-update-gets-non-success-status", vpImp(!authorised && !probe, rec.status != 200 && rec.status != 0))
	vpAssert("success-status-only-if-store-succeeded", vpImp(rec.status == 200 && !probe, authorised && fake.mutErr == nil))
	vpCover("end")
}

// VP_C06_TokenIssuance: a session token is issued only after a successful password
// authentication and names that user with the store-reported admin flag.
func VP_C06_TokenIssuance() {
	f, err := NewWebSessionFactory(vpLifetime * time.Second)
	if err != nil {
		panic("setup")
	}
	fake := vpScriptStore()
	st := vpFakeStore(fake)
	user := vpStr("username", vpChoose("usernamelen", 3))
	pw := vpStr("password", vpChoose("passwordlen", 3))
	doc := map[string]interface{}{"username": user, "password": pw}
	body := vpJSON(doc)
	if vpChoose("body-shape", 2) == 1 {
		body = vpMalformedJSON()
	}
	rec := vpNewRecorder()
	vpServe(handleWebAuthenticate, st, f, rec, vpReqWith(body))
	vpAssert("handler-does-not-panic", !rec.panicked)
	good := !body.malformed && user != "" && pw != "" && fake.authOK && fake.authErr == nil
	tok := rec.sessionOf()
	vpAssert("token-only-after-successful-authentication", vpImp(tok != "", good))
	vpAssert("success-status-iff-authenticated", (rec.status == 200) == good)
	vpAssert("store-asked-at-most-once-with-the-submitted-credentials", fake.count("authenticate") <= 1 && len(fake.calls) == fake.count("authenticate"))
	if fake.count("authenticate") == 1 {
		a := fake.last("authenticate")
		vpAssert("credentials-passed-unaltered", a.user == user && a.password == pw)
	}
	if tok != "" {
		r := vpCheck(f, tok)
		ok := r.status == 200
		for i := 0; i < len(user); i++ {
			if user[i] == ':' {
				ok = true // names with ':' never yield an accepted token (not schema-valid)
			}
		}
		vpAssert("issued-token-is-valid-for-this-instance", ok)
		if r.status == 200 {
			vpAssert("token-names-the-authenticated-user-and-store-flag", r.user == user && r.admin == fake.authAdm)
		}
	}
	vpCover("end")
}

// VP_C06_RequestsAreJudgedOnTheirOwn: a request without credentials is refused whatever was served
// just before it on the same endpoint - nothing of an earlier (authorised) request carries over.
func VP_C06_RequestsAreJudgedOnTheirOwn() {
	f, err := NewWebSessionFactory(vpLifetime * time.Second)
	if err != nil {
		panic("setup")
	}
	fake := vpScriptStore()
	st := vpFakeStore(fake)
	handlers := []vpHandler{handleWebAdd, handleWebRemove, handleWebSetAdmin, handleWebList, handleWebListFull, handleWebUpdate}
	ep := vpChoose("endpoint", 6)
	// first: an administrator's well-formed request
	_, _, admin := f.Generate("bob", true)
	first := map[string]interface{}{"session": admin, "username": "eve", "password": "secret", "newpassword": "secret", "admin": true}
	vpServe(handlers[ep], st, f, vpNewRecorder(), vpReqWith(vpJSON(first)))
	n0 := len(fake.calls)
	// then: the same endpoint, no usable credential in the body
	second := map[string]interface{}{}
	switch vpChoose("second-body", 4) {
	case 0: // empty object
	case 1: // everything but the credential
		second["username"], second["password"], second["newpassword"], second["admin"] = "eve", "secret", "secret", true
	case 2: // explicit null
		second["session"], second["username"] = nil, "eve"
	case 3: // another user's fields only
		second["username"], second["admin"] = "mallory", true
	}
	rec := vpNewRecorder()
	vpServe(handlers[ep], st, f, rec, vpReqWith(vpJSON(second)))
	vpAssert("handler-does-not-panic", !rec.panicked)
	vpAssert("credential-less-request-sends-nothing-to-the-store", len(fake.calls) == n0)
	vpAssert("credential-less-request-gets-non-success-status", rec.status != 200 && rec.status != 0)
	vpAssert("credential-less-request-discloses-no-list", !rec.disclosedList())
	vpCover("end")
}

// VP_C06_ConcurrentLoginsGetTheirOwnVerdicts: two API logins at the same time, one with the
// right and one with a wrong password, against the real agent; every schedule with switches at
// blocking points plus one preemption at a channel operation: a session token is issued only to
// the request that carried the right password.
func VP_C06_ConcurrentLoginsGetTheirOwnVerdicts() {
	_, st, _, _ := vpAgent(1, "")
	f, err := NewWebSessionFactory(vpLifetime * time.Second)
	if err != nil {
		panic("setup")
	}
	pws := [2]string{"old", "bad"}
	var recs [2]*vpRecorder
	var bodies [2]*vpBody
	for i := range recs {
		recs[i] = vpNewRecorder()
		bodies[i] = vpJSON(map[string]interface{}{"username": "u", "password": pws[i]})
	}
	vpSchedExploreFine(1)
	done := make(chan bool, 2)
	for i := 0; i < 2; i++ {
		i := i
		go func() { vpServe(handleWebAuthenticate, st, f, recs[i], vpReqWith(bodies[i])); done <- true }()
	}
	a := vpAwait(done)
	b := vpAwait(done)
	vpSchedExploreFine(0)
	vpAssert("both-answered", a && b)
	vpAssert("sched: token-only-for-the-request-with-the-right-password", recs[0].status == 200 && recs[1].status != 200 && recs[1].sessionOf() == "")
	vpCover("end")
}
