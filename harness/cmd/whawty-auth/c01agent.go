package main

// C01 through the agent: the verdict of (*Store).Authenticate tracks the last acknowledged write
// made through the same interface (all requests are served by the dispatcher, one at a time).

func VP_C01_AgentHistory() {
	def := 1 + vpChoose("default", 2)
	_, st, _, _ := vpAgent(def, "") // root/rootpw (admin), u/old
	pws := []string{"old", vpStr("pw1", 2)}
	cur, exists, admin := "old", true, false
	for step := 0; step < 2; step++ {
		switch vpChoose("op", 5) {
		case 0:
			pw := pws[vpChoose("pw", 2)]
			if err := st.Update("u", pw); err == nil {
				vpAssert("update-succeeds-only-if-present", exists)
				cur = pw
			} else {
				vpAssert("update-fails-only-if-absent", !exists)
			}
		case 1:
			pw := pws[vpChoose("pw", 2)]
			adm := vpChoose("admin", 2) == 1
			if err := st.Add("u", pw, adm); err == nil {
				vpAssert("add-succeeds-only-if-absent", !exists)
				cur, exists, admin = pw, true, adm
			} else {
				vpAssert("add-fails-only-if-present", exists)
			}
		case 2:
			adm := vpChoose("admin", 2) == 1
			if err := st.SetAdmin("u", adm); err == nil {
				admin = adm
			}
		case 3:
			st.Remove("u")
			exists = false
		case 4:
			st.Authenticate("u", pws[vpChoose("pw", 2)])
		}
	}
	for _, p := range pws {
		ok, isAdmin, _, _ := st.Authenticate("u", p)
		vpAssert("agent-authenticates-iff-last-acknowledged-password", ok == (exists && p == cur))
		vpAssert("agent-reports-the-current-admin-flag", vpImp(ok, isAdmin == admin))
	}
	vpCover("end")
}
