package main

// C17 — no password failing the configured policy is ever stored.

import (
	"errors"
	"math"

	zxcvbn "github.com/nbutton23/zxcvbn-go"
	"github.com/nbutton23/zxcvbn-go/scoring"
)

// refPolicy: reference parser of the zxcvbn condition (F.10): three whitespace-separated fields
// kind ">=" n; kind in {score, entropy, time}; n unsigned decimal 64-bit; score => n <= 4.
func refPolicy(cond string) (kind string, th uint64, ok bool) {
	var fields []string
	start := -1
	for i := 0; i <= len(cond); i++ {
		sp := i == len(cond) || cond[i] == ' ' || cond[i] == '\t' || cond[i] == '\n' || cond[i] == '\v' || cond[i] == '\f' || cond[i] == '\r'
		if sp {
			if start >= 0 {
				fields = append(fields, cond[start:i])
				start = -1
			}
		} else if start < 0 {
			start = i
		}
	}
	if len(fields) != 3 || fields[1] != ">=" {
		return "", 0, false
	}
	n := fields[2]
	if len(n) == 0 || len(n) > 20 {
		return "", 0, false
	}
	var v uint64
	for i := 0; i < len(n); i++ {
		if n[i] < '0' || n[i] > '9' {
			return "", 0, false
		}
		d := uint64(n[i] - '0')
		if v > (^uint64(0)-d)/10 {
			return "", 0, false // overflow
		}
		v = v*10 + d
	}
	switch fields[0] {
	case "score":
		if v > 4 {
			return "", 0, false
		}
	case "entropy", "time":
	default:
		return "", 0, false
	}
	return fields[0], v, true
}

// VP_C17_ConditionParser: either an error, or exactly the comparator and threshold the
// reference yields; verdicts agree with Score >= n / Entropy >= n / CrackTime >= n.
func VP_C17_ConditionParser() {
	// one slot at a time is arbitrary bytes, the others come from the menus
	arb := vpChoose("arbitrary-slot", 4)
	kinds := []string{"score", "entropy", "time", "Score"}
	seps := []string{" ", "  \t", ""}
	ops := []string{">=", ">"}
	nums := []string{"4", "5", "007", "010", "0x3", "1_0", "18446744073709551615", "18446744073709551616", ""}
	tails := []string{"", " x"}
	if vpTier() == 0 {
		seps = seps[:2]
		kinds = []string{"score", "entropy", "Score"}
		nums = []string{"4", "5", "010", "0x3", "18446744073709551616", ""}
	}
	kindS := kinds[vpChoose("kind", len(kinds))]
	opS := ops[vpChoose("op", len(ops))]
	numS := nums[vpChoose("num", len(nums))]
	switch arb {
	case 1:
		kindS = vpStr("kindbytes", 1+vpChoose("kindlen", 2))
	case 2:
		opS = vpStr("opbytes", 1+vpChoose("oplen", 2))
	case 3:
		numS = vpStr("numbytes", 1+vpChoose("numlen", 2))
	}
	cond := kindS + seps[vpChoose("sep1", len(seps))] + opS + seps[vpChoose("sep2", len(seps))] + numS + tails[vpChoose("tail", len(tails))]
	for i := 0; i < len(cond); i++ {
		vpAssume(cond[i] < 0x80) // ASCII conditions (non-ASCII white space is outside the bound)
	}
	p, err := newZXCVBNPolicy(cond)
	kind, th, ok := refPolicy(cond)
	vpAssert("condition-accepted-iff-wellformed", (err == nil) == ok)
	if err == nil {
		vpAssert("accepted-policy-is-never-empty", p.condition != nil)
	}
	if err == nil && ok && p.condition != nil {
		vpAssert("threshold-as-written", p.threshold == th)
		// arbitrary strength: integers so that the reference comparison is exact
		sc := vpInt("score", 0, 4)
		// entropy and crack time are arbitrary non-negative floating-point values (fractions included)
		en := math.Float64frombits(vpU64("entropy"))
		ct := math.Float64frombits(vpU64("cracktime"))
		vpAssume(en >= 0 && en <= 1e18 && ct >= 0 && ct <= 1e18)
		m := scoring.MinEntropyMatch{Score: sc, Entropy: en, CrackTime: ct}
		got := p.condition(m, p.threshold)
		var want bool
		switch kind {
		case "score":
			want = uint64(sc) >= th
		case "entropy":
			want = en >= float64(th)
		case "time":
			want = ct >= float64(th)
		}
		vpAssert("verdict-is-the-documented-comparison", got == want)
	}
	vpCover("end")
}

// VP_C17_PolicyConstructor: an unknown type or a bad condition is an error, never a nil/permissive policy.
func VP_C17_PolicyConstructor() {
	typ := []string{"", "zxcvbn", "ZXCVBN", "none", vpStr("type", 2)}[vpChoose("type", 5)]
	cond := []string{"score >= 3", "", "score >= 9", "garbage"}[vpChoose("cond", 4)]
	p, err := NewPasswordPolicy(typ, cond)
	switch typ {
	case "":
		vpAssert("no-policy-configured-is-the-null-policy", err == nil && p != nil)
	case "zxcvbn":
		_, _, ok := refPolicy(cond)
		vpAssert("zxcvbn-policy-iff-condition-parses", (err == nil) == ok)
		vpAssert("error-means-no-usable-policy-is-assumed", vpImp(err == nil, p != nil))
	default:
		vpAssert("unknown-policy-type-is-an-error", err != nil)
	}
	vpCover("end")
}

// VP_C17_WritePathsGate: init / add / update of the agent store reach the library only if the
// policy approves without error; a refusal is an error and changes nothing.
func VP_C17_WritePathsGate() {
	base, cfg := vpAgentDir(1)
	op := vpChoose("op", 3)
	if op != 0 {
		vpSeedUser(cfg, "root", "rootpw", true)
	}
	s, err := NewStore(cfg, "", "", "", "")
	if err != nil {
		panic("setup: " + err.Error())
	}
	pol := vpPolicy{ok: vpBool("policy-ok")}
	if vpChoose("policy-err", 2) == 1 {
		pol.err = errors.New("policy failure")
	}
	s.policy = pol
	before := vpFsSnapshot(base)
	pw := vpStr("password", 2)
	if vpChoose("same-as-stored", 2) == 1 {
		pw = "rootpw" // re-submitting the password that is already stored is a write like any other
	}
	var rerr error
	st := s.GetInterface()
	switch op {
	case 0:
		rerr = st.Init("root", pw)
	case 1:
		rerr = st.Add("u", pw, vpChoose("admin", 2) == 1)
	case 2:
		rerr = st.Update("root", pw)
	}
	approved := pol.ok && pol.err == nil
	changed := !vpFsSame(before, vpFsSnapshot(base))
	vpAssert("refused-password-is-an-error", vpImp(!approved, rerr != nil))
	vpAssert("refused-password-changes-nothing", vpImp(!approved, !changed))
	vpAssert("approved-password-is-not-refused-on-policy-grounds", vpImp(approved, rerr == nil && changed))
	vpCover("end")
}

// VP_C17_AgentRefusesBadPolicy: NewStore fails (the agent does not start) on a policy error.
func VP_C17_AgentRefusesBadPolicy() {
	_, cfg := vpAgentDir(1)
	typ := []string{"zxcvbn", "bogus"}[vpChoose("type", 2)]
	cond := []string{"score >= 3", "score > 3", "score >= 5", ""}[vpChoose("cond", 4)]
	s, err := NewStore(cfg, "", typ, cond, "")
	_, _, ok := refPolicy(cond)
	good := typ == "zxcvbn" && ok
	vpAssert("agent-starts-iff-policy-parses", (err == nil) == good)
	if err == nil {
		vpAssert("policy-installed", s.policy != nil)
	}
	vpCover("end")
}

// VP_C17_VerdictIsPerUserAndPassword: the verdict of a policy object depends only on the
// password and user name it is asked about - not on what it was asked before (a fresh policy
// object built from the same condition is the reference). zxcvbn itself is an uninterpreted
// scoring function of (password, user inputs): the assertion is model-level.
func VP_C17_VerdictIsPerUserAndPassword() {
	cond := []string{"score >= 3", "entropy >= 40", "time >= 1000"}[vpChoose("condition", 3)]
	p, err := NewPasswordPolicy("zxcvbn", cond)
	if err != nil {
		panic("setup")
	}
	long := make([]byte, 257) // longer than any of the transports' field limits, trivially weak
	for i := range long {
		long[i] = 'a'
	}
	pws := []string{"zaphod.beeblebrox-42", "a", string(long)}
	users := []string{"bob", "zaphod.beeblebrox-42"}
	pw1, u1 := pws[vpChoose("password1", 3)], users[vpChoose("user1", 2)]
	pw2, u2 := pws[vpChoose("password2", 3)], users[vpChoose("user2", 2)]
	p.Check(pw1, u1)
	got, gerr := p.Check(pw2, u2)
	ref, rerr := NewPasswordPolicy("zxcvbn", cond)
	if rerr != nil {
		panic("setup")
	}
	want, werr := ref.Check(pw2, u2)
	vpAssert("model: verdict-depends-only-on-this-password-and-user", got == want && (gerr != nil) == (werr != nil))
	// ... and it is the documented comparison applied to the strength of exactly this password
	// (with the user name and the application name as user inputs)
	m := zxcvbn.PasswordStrength(pw2, []string{u2, "whawty"})
	doc := false
	switch cond {
	case "score >= 3":
		doc = m.Score >= 3
	case "entropy >= 40":
		doc = m.Entropy >= 40
	case "time >= 1000":
		doc = m.CrackTime >= 1000
	}
	vpAssert("model: verdict-is-the-documented-comparison-of-this-password's-strength", got == doc)
	vpCover("end")
}

// VP_C17_CliWritePaths: init / add / update from the command line with the policy given by the
// global flags: the command succeeds iff a fresh policy object approves the password for that
// user; a refusal changes nothing; an unparsable condition stops the command.
func VP_C17_CliWritePaths() {
	base, cfg := vpAgentDir(1)
	op := vpChoose("op", 3)
	if op != 0 {
		vpSeedUser(cfg, "root", "rootpw", true)
	}
	cond := []string{"score >= 3", "score > 3"}[vpChoose("condition", 2)]
	pw := []string{"a", "Tr0ub4dor&3-correct-horse-battery"}[vpChoose("password", 2)]
	g := vpGlobals(cfg, false)
	g["policy-type"], g["policy-condition"] = "zxcvbn", cond
	before := vpFsSnapshot(base)
	var err error
	user := "root"
	switch op {
	case 0:
		err = cmdInit(vpCliContext(g, map[string]string{}, []string{"root", pw}))
	case 1:
		user = "u"
		err = cmdAdd(vpCliContext(g, map[string]string{}, []string{"u", pw}))
	case 2:
		err = cmdUpdate(vpCliContext(g, map[string]string{}, []string{"root", pw}))
	}
	code, isExit := vpExit(err)
	vpAssert("exits-with-an-exit-error", isExit)
	changed := !vpFsSame(before, vpFsSnapshot(base))
	ref, rerr := NewPasswordPolicy("zxcvbn", cond)
	if rerr != nil {
		vpAssert("unparsable-policy-stops-the-command", code != 0 && !changed)
	} else {
		want, _ := ref.Check(pw, user)
		vpAssert("stored-only-if-the-policy-approves", vpImp(code == 0 || changed, want))
		vpAssert("approved-password-is-not-refused", vpImp(want, code == 0 && changed))
	}
	vpCover("end")
}
