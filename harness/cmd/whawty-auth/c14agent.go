package main

// C14 through the agent: what add / update write names the *configured* default parameter
// set - also after the configuration has been reloaded with another default.

import (
	"os"
	"path/filepath"
	"strconv"
	"time"
)

func VP_C14_AgentWritesUnderConfiguredDefault() {
	def0 := 1 + vpChoose("default-at-start", 2)
	base, cfg := vpAgentDir(def0)
	vpSeedUser(cfg, "root", "rootpw", true)
	vpSeedUser(cfg, "u", "old", false)
	s, err := NewStore(cfg, "", "", "", "")
	if err != nil {
		panic("setup: " + err.Error())
	}
	st := s.GetInterface()
	def := def0
	if vpChoose("reload", 2) == 1 {
		def = 1 + vpChoose("default-after-reload", 2)
		vpYAMLFile(cfg, vpConfigDoc(base, def))
		st.Check() // the dispatcher is up once it has answered a request
		vpSignalHUP()
		st.Check() // once this is answered the reload has run
	}
	pw := vpStr("pw", 3)
	lo := time.Now().Unix()
	name := "u"
	if vpChoose("operation", 2) == 0 {
		name = "w"
		vpAssert("add-ok", st.Add("w", pw, false) == nil)
	} else {
		vpAssert("update-ok", st.Update("u", pw) == nil)
	}
	hi := time.Now().Unix()
	raw, rerr := os.ReadFile(filepath.Join(base, name+".user"))
	vpAssert("record-file-exists", rerr == nil)
	f, rest, ok := vpSplit5(string(raw))
	vpAssert("single-line-five-fields", ok && rest == "")
	if ok {
		vpAssert("algorithm-of-the-configured-default", f[0] == []string{"", "argon2id", "hmac_sha256_scrypt"}[def])
		vpAssert("parameter-set-field-is-the-configured-default", f[2] == strconv.Itoa(def))
		ts, terr := strconv.ParseInt(f[1], 10, 64)
		vpAssert("timestamp-is-current-unix-time", terr == nil && ts >= lo && ts <= hi)
	}
	vpCover("end")
}
