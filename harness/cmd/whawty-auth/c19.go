package main

// C19 — update hooks: no change un-notified, bursts coalesced, only safe files run.

import (
	"os"
	"path/filepath"
	"strings"
	"time"
)

type vpHookEnt struct {
	name    string
	kind    int // 0 regular, 1 symlink to a regular file, 2 directory
	mode    int
	started bool
}

// vpStartedHooks reports which paths were started, with which arguments / store variable.
type vpStart struct{ path, args, store string }

func vpHookStarts(logf string) []vpStart {
	var out []vpStart
	if vpSymbolic() {
		for i := 0; i < vpExecCount(); i++ {
			st := "?"
			if vpExecHasEnv(i, "WHAWTY_AUTH_STORE=/the/store") {
				st = "/the/store"
			}
			out = append(out, vpStart{vpExecPath(i), vpExecArgs(i), st})
		}
		return out
	}
	time.Sleep(400 * time.Millisecond)
	b, _ := os.ReadFile(logf)
	for _, l := range strings.Split(string(b), "\n") {
		f := strings.Split(l, "|")
		if len(f) == 3 {
			out = append(out, vpStart{f[0], f[1], f[2]})
		}
	}
	return out
}

func vpHookScript(logf string) []byte {
	return []byte("#!/bin/sh\necho \"$0|$*|$WHAWTY_AUTH_STORE\" >> " + logf + "\n")
}

// VP_C19_Eligibility: a hook is started iff the directory is not world-writable, the name is not
// hidden, the entry is a regular file or symlink, and some execute bit is set.
func VP_C19_Eligibility() {
	root := vpTempDir()
	dir := filepath.Join(root, "hooks")
	logf := filepath.Join(root, "log")
	if os.Mkdir(dir, 0755) != nil {
		panic("setup")
	}
	target := filepath.Join(root, "target.sh")
	os.WriteFile(target, vpHookScript(logf), 0755)
	names := []string{"hook", ".hidden", "run.sh", "..x"}
	n := 1 + vpChoose("entries", 2)
	var ents []vpHookEnt
	for i := 0; i < n; i++ {
		e := vpHookEnt{name: names[vpChoose("name", len(names))], kind: vpChoose("kind", 4), mode: vpInt("mode", 0, 0777)}
		dup := false
		for _, o := range ents {
			if o.name == e.name {
				dup = true
			}
		}
		if dup {
			continue
		}
		p := filepath.Join(dir, e.name)
		switch e.kind {
		case 0:
			os.WriteFile(p, vpHookScript(logf), 0600)
			os.Chmod(p, os.FileMode(e.mode))
		case 1:
			os.Symlink(target, p)
			e.mode = 0777 // the link's own mode
		case 2:
			os.Mkdir(p, 0700)
			os.Chmod(p, os.FileMode(e.mode))
		case 3: // a link whose target is gone: looks eligible, cannot be started; the others still are
			os.Symlink(filepath.Join(root, "gone.sh"), p)
			e.mode = 0777
		}
		ents = append(ents, e)
	}
	dirMode := vpInt("dirmode", 0, 0777)
	os.Chmod(dir, os.FileMode(dirMode))
	vpHookBehaviour(0)
	h := &HooksCaller{dir: dir, store: "/the/store"}
	h.runAllHooks()
	starts := vpHookStarts(logf)
	for _, e := range ents {
		eligible := dirMode&02 == 0 && e.name[0] != '.' && e.kind != 2 && e.mode&0111 != 0
		cnt := 0
		for _, s := range starts {
			if s.path == filepath.Join(dir, e.name) {
				cnt++
				vpAssert("single-argument-update", s.args == "update")
				vpAssert("store-directory-in-environment", s.store == "/the/store")
			}
		}
		if e.kind == 3 {
			continue // whether the attempt is recorded is immaterial: it cannot run
		}
		vpAssert("started-iff-eligible", (cnt == 1) == eligible && cnt <= 1)
	}
	vpAssert("nothing-else-started", len(starts) <= len(ents))
	os.Chmod(dir, 0755)
	vpCover("end")
}

// VP_C19_HangingHookIsKilled: a hook that never exits is killed after its time limit by its own
// waiter goroutine; the caller returned long before.
func VP_C19_HangingHookIsKilled() {
	if !vpSymbolic() {
		return // needs a minute of real time natively
	}
	beh := vpChoose("behaviour", 3)
	vpHookBehaviour(beh)
	returned := false
	done := make(chan bool, 1)
	go func() {
		runHook("/hooks/h", "/the/store")
		returned = true
		done <- true
	}()
	vpAssert("model: caller-never-waits-for-the-hook", vpAwait(done) && returned)
	vpSettle() // nothing runnable: the virtual clock advances to the armed timer
	vpAssert("model: hook-started-once", vpExecCount() == 1)
	vpAssert("model: hook-is-waited-for", vpExecWaited(0))
	vpFireTimers()
	vpSettle()
	vpAssert("model: hanging-hook-is-killed-after-its-time-limit", vpImp(beh == 2, vpExecKilled(0)))
	vpAssert("model: finished-hook-is-not-killed", vpImp(beh != 2, !vpExecKilled(0)))
	vpCover("end")
}

// VP_C19_NotifyTimerRuns: the notify/timer loop: every notification is followed by a hook round
// started not before it; at most two rounds per rate-limit interval.
func VP_C19_NotifyTimerRuns() {
	if !vpSymbolic() {
		return // the rate limit is 5 s of real time natively; covered symbolically
	}
	root := vpTempDir()
	dir := filepath.Join(root, "hooks")
	os.Mkdir(dir, 0755)
	os.WriteFile(filepath.Join(dir, "hook"), []byte("#!/bin/sh\n"), 0755)
	vpHookBehaviour(0)
	h, err := NewHooksCaller(dir, "/the/store")
	if err != nil {
		panic("setup")
	}
	events := 2 + vpChoose("events", 3+2*vpTier())
	notified := 0
	roundsBeforeLastNotify := 0
	expiries := 0
	inWindow := 0 // rounds since the last timer expiry (a trailing round belongs to the window it ends)
	windowOK := true
	for i := 0; i < events; i++ {
		before := vpExecCount()
		switch vpChoose("event", 3) {
		case 0: // a change notification, processed at once
			roundsBeforeLastNotify = before
			h.Notify <- true
			notified++
			vpSettle()
			inWindow += vpExecCount() - before
			windowOK = windowOK && inWindow <= 1 // only the leading round happens without an expiry
		case 1: // the timer expires (if armed), processed at once
			fired := vpFireTimers()
			expiries += fired
			vpSettle()
			inWindow += vpExecCount() - before
			windowOK = windowOK && inWindow <= 2
			if fired > 0 {
				inWindow = 0
			}
		case 2: // a notification races the expired timer: both are pending when the loop selects
			fired := vpFireTimers()
			expiries += fired
			roundsBeforeLastNotify = before
			h.Notify <- true
			notified++
			vpSchedExplore(true)
			vpSettle()
			vpSchedExplore(false)
			windowOK = windowOK && inWindow+vpExecCount()-before <= 3 && vpExecCount()-before <= 2
			if fired > 0 {
				inWindow = 0
			} else {
				inWindow += vpExecCount() - before
				windowOK = windowOK && inWindow <= 1
			}
		}
	}
	// quiescence: let every armed timer expire
	for k := 0; k < 3; k++ {
		expiries += vpFireTimers()
		vpSettle()
	}
	rounds := vpExecCount()
	vpAssert("model: no-change-un-notified", vpImp(notified > 0, rounds > roundsBeforeLastNotify))
	vpAssert("model: bursts-coalesced-at-most-two-rounds-per-interval", windowOK && rounds <= 2*(expiries+1) && rounds <= 2*notified)
	vpAssert("model: no-rounds-without-notifications", vpImp(notified == 0, rounds == 0))
	vpCover("end")
}

// VP_C19_NotifyIffSuccess: add / update / set-admin notify iff they succeeded, remove always.
func VP_C19_NotifyIffSuccess() {
	_, cfg := vpAgentDir(1)
	vpSeedUser(cfg, "root", "rootpw", true)
	s, err := NewStore(cfg, "", "", "", "")
	if err != nil {
		panic("setup")
	}
	st := s.GetInterface()
	st.Check()
	own := &HooksCaller{Notify: make(chan bool, 32), NewStore: make(chan string, 1)}
	s.hooks = own
	who := []string{"root", "ghost"}[vpChoose("who", 2)]
	var oerr error
	always := false
	switch vpChoose("op", 5) {
	case 0:
		oerr = st.Add(who, "pw", false)
	case 1:
		oerr = st.Update(who, "pw2")
	case 2:
		oerr = st.SetAdmin(who, false)
	case 3:
		oerr = st.Remove(who)
		always = true
	case 4:
		_, _, _, oerr = st.Authenticate(who, "rootpw")
		vpAssert("logins-never-notify", len(own.Notify) == 0)
		vpCover("end")
		return
	}
	vpAssert("notified-iff-the-change-succeeded", (len(own.Notify) == 1) == (oerr == nil || always) && len(own.Notify) <= 1)
	vpCover("end")
}

// VP_C19_HookStoreFollowsReload: after a reload that moves the store to another base directory,
// the hooks started for later changes get the new directory in WHAWTY_AUTH_STORE.
// (exec is recorded by the engine: model-level)
func VP_C19_HookStoreFollowsReload() {
	if !vpSymbolic() {
		return
	}
	root := vpTempDir()
	baseA, baseB := filepath.Join(root, "a"), filepath.Join(root, "b")
	os.Mkdir(baseA, 0700)
	os.Mkdir(baseB, 0700)
	dir := filepath.Join(root, "hooks")
	os.Mkdir(dir, 0755)
	os.WriteFile(filepath.Join(dir, "hook"), []byte("#!/bin/sh\n"), 0755)
	vpHookBehaviour(0)
	cfg := filepath.Join(root, "c.yaml")
	vpYAMLFile(cfg, vpConfigDoc(baseB, 1))
	vpSeedUser(cfg, "boss", "bosspw", true)
	vpYAMLFile(cfg, vpConfigDoc(baseA, 1))
	vpSeedUser(cfg, "root", "rootpw", true)
	s, err := NewStore(cfg, "", "", "", dir)
	if err != nil {
		panic("setup: " + err.Error())
	}
	st := s.GetInterface()
	st.Check()
	moved := vpChoose("reload-moves-the-store", 2) == 1
	want := baseA
	if moved {
		vpYAMLFile(cfg, vpConfigDoc(baseB, 1))
		want = baseB
	}
	if vpChoose("reload", 2) == 1 || moved {
		vpSignalHUP()
		st.Check()
		st.Check()
	}
	vpSettle()
	before := vpExecCount()
	vpAssert("change-ok", st.Add("w", "wpw", false) == nil)
	vpSettle()
	for k := 0; k < 2; k++ {
		vpFireTimers()
		vpSettle()
	}
	vpAssert("model: a-hook-round-follows-the-change", vpExecCount() > before)
	ok := true
	for i := before; i < vpExecCount(); i++ {
		ok = ok && vpExecHasEnv(i, "WHAWTY_AUTH_STORE="+want)
	}
	vpAssert("model: hooks-get-the-current-store-directory", ok)
	vpCover("end")
}

// VP_C19_UpgradeNotifies: a record the agent rewrites on its own (local hash upgrade after a
// successful login) is a change like any other: the hooks are notified - exactly when the
// record was rewritten.
func VP_C19_UpgradeNotifies() {
	def := 1 + vpChoose("default", 2)
	s, st, base, _ := vpAgent(def, vpModes())
	st.Check()
	own := &HooksCaller{Notify: make(chan bool, 32), NewStore: make(chan string, 1)}
	s.hooks = own
	before := vpFsSnapshot(base)
	pw := []string{"old", "bad"}[vpChoose("password", 2)]
	st.Authenticate("u", pw)
	vpSettle()
	changed := !vpFsSame(before, vpFsSnapshot(base))
	vpAssert("notified-iff-the-record-was-rewritten", (len(own.Notify) >= 1) == changed)
	vpCover("end")
}
