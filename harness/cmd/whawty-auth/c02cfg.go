package main

// C02 (configuration side) — a record that names a parameter set the configuration defines but
// whose hasher cannot be built (wrong HMAC key length, cost out of range, argon2id time / threads
// of zero) is either impossible (the loader refuses the configuration) or handled like any other
// unsupported record: clean failure to authenticate, hidden from list, unsupported in list-full,
// update refused and the file left byte-identical. Never a crash.

import (
	"encoding/base64"
	"os"
	"path/filepath"

	"golang.org/x/crypto/argon2"

	lib "github.com/whawty/auth/store"
)

func VP_C02_RecordNamingAnUnusableSet() {
	root := vpTempDir()
	base := filepath.Join(root, "store")
	os.Mkdir(base, 0700)
	cfg := filepath.Join(root, "c.yaml")
	good := map[string]interface{}{"id": 1, "argon2id": map[string]interface{}{"time": 1, "memory": 8, "threads": 1, "length": 32}}
	var second map[string]interface{}
	format := "argon2id"
	usable := false
	switch vpChoose("second-set", 5) {
	case 0:
		second = map[string]interface{}{"id": 2, "argon2id": map[string]interface{}{"time": 2, "memory": 8, "threads": 1, "length": 32}}
		usable = true
	case 1:
		second = map[string]interface{}{"id": 2, "argon2id": map[string]interface{}{"time": 0, "memory": 8, "threads": 1, "length": 32}}
	case 2:
		second = map[string]interface{}{"id": 2, "argon2id": map[string]interface{}{"time": 1, "memory": 8, "threads": 0, "length": 32}}
	case 3:
		second = map[string]interface{}{"id": 2, "scryptauth": map[string]interface{}{"hmackey": "c2hvcnQ=", "cost": 2}} // 5-byte key
		format = "hmac_sha256_scrypt"
	case 4:
		second = map[string]interface{}{"id": 2, "scryptauth": map[string]interface{}{"hmackey": vpHmacKeyB64, "cost": 40}}
		format = "hmac_sha256_scrypt"
	}
	vpYAMLFile(cfg, map[string]interface{}{"basedir": base, "default": 1, "params": []interface{}{good, second}})
	d, err := lib.NewDirFromConfig(cfg)
	if err != nil {
		vpAssert("usable-configuration-loads", !usable)
		vpCover("refused")
		return
	}
	pw := vpStr("pw", 3)
	salt := vpBytes("salt", 16)
	var digest []byte
	if usable {
		digest = argon2.IDKey([]byte(pw), salt, 2, 8, 1, 32)
	} else {
		digest = vpBytes("digest", 32)
	}
	rec := format + ":1600000000:2:" + base64.URLEncoding.EncodeToString(salt) + ":" + base64.URLEncoding.EncodeToString(digest) + "\n"
	file := filepath.Join(base, "u.user")
	os.WriteFile(filepath.Join(base, "root.admin"), []byte("argon2id:1600000000:1:"+base64.URLEncoding.EncodeToString(salt)+":"+base64.URLEncoding.EncodeToString(argon2.IDKey([]byte("x"), salt, 1, 8, 1, 32))+"\n"), 0600)
	if os.WriteFile(file, []byte(rec), 0600) != nil {
		panic("setup")
	}
	panicked := false
	var ok bool
	var aerr, uerr error
	var lst lib.UserList
	var full lib.UserListFull
	func() {
		defer func() {
			if recover() != nil {
				panicked = true
			}
		}()
		ok, _, _, _, aerr = d.Authenticate("u", pw)
		lst, _ = d.List()
		full, _ = d.ListFull()
		if !usable {
			uerr = d.UpdateUser("u", "new")
		}
	}()
	vpAssert("record-of-a-configured-set-never-crashes", !panicked)
	if panicked {
		return
	}
	if usable {
		vpAssert("independent-record-of-a-usable-set-authenticates", ok && aerr == nil)
		_, listed := lst["u"]
		vpAssert("usable-record-listed", listed)
	} else {
		vpAssert("record-of-an-unusable-set-never-authenticates", !ok && aerr != nil)
		_, listed := lst["u"]
		vpAssert("record-of-an-unusable-set-hidden-from-list", !listed)
		e, infull := full["u"]
		vpAssert("record-of-an-unusable-set-unsupported-in-list-full", infull && !e.IsSupported)
		vpAssert("record-of-an-unusable-set-refused-on-update", uerr != nil)
		now, rerr := os.ReadFile(file)
		vpAssert("record-of-an-unusable-set-left-byte-identical", rerr == nil && string(now) == rec)
	}
	vpCover("end")
}
