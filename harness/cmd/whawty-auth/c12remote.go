package main

// C12, remote upgrade mode: a replica whose do-upgrades setting is the master's update URL.
// The outgoing POST of remoteHTTPUpgrade is delivered (by the http.Client model, natively by a
// loopback server) to vpRemoteEndpoint, which serves it with the real handleWebUpdate of a
// second, real agent: the master.

import (
	"net/http"
	"os"
	"path/filepath"
	"time"

	lib "github.com/whawty/auth/store"
)

type vpRemoteCall struct {
	method, url, ctype string
	doc                interface{}
}

var (
	vpRemoteCalls    []vpRemoteCall
	vpMaster         *Store
	vpMasterSessions *webSessionFactory
	vpRemoteStalls   bool
	vpNever          = make(chan bool)
)

// vpRemoteEndpoint is what the replica's POST reaches; returns the HTTP status (< 0: transport error).
func vpRemoteEndpoint(method, url, ctype string, doc interface{}) int {
	vpRemoteCalls = append(vpRemoteCalls, vpRemoteCall{method, url, ctype, doc})
	if vpRemoteStalls {
		<-vpNever // a master that accepts the request and never answers
	}
	if vpMaster == nil {
		return -1
	}
	rec := vpNewRecorder()
	r := &http.Request{Method: method, Header: http.Header{}, RemoteAddr: "replica"}
	r.Header.Set("Content-Type", ctype)
	m, _ := doc.(map[string]interface{})
	r.Body = vpJSON(m)
	vpServe(handleWebUpdate, vpMaster, vpMasterSessions, rec, r)
	if rec.panicked {
		return 500
	}
	return rec.status
}

// vpRewrittenCorrectly: the record of u in base is under set 2 for password pw, still a plain
// user, with the auxiliary bytes it had.
func vpRewrittenCorrectly(cfg, base, pw, aux string) bool {
	raw, _ := os.ReadFile(filepath.Join(base, "u.user"))
	f, rest, okf := vpSplit5(string(raw))
	if !okf || f[0] != "hmac_sha256_scrypt" || f[2] != "2" || rest != aux {
		return false
	}
	d, err := lib.NewDirFromConfig(cfg)
	if err != nil {
		return false
	}
	ok, adm, upg, _, _ := d.Authenticate("u", pw)
	_, e := os.Stat(filepath.Join(base, "u.admin"))
	return ok && !adm && !upg && e != nil
}

func VP_C12_RemoteUpgrade() {
	url := vpRemoteURL()
	// the master: same users; u's password there may have diverged
	mbase, mcfg := vpAgentDir(1)
	vpSeedUser(mcfg, "root", "rootpw", true)
	masterPw := []string{"old", "other"}[vpChoose("password-on-master", 2)]
	vpSeedUser(mcfg, "u", masterPw, false)
	aux := vpStr("aux", 2)
	mpath := filepath.Join(mbase, "u.user")
	mraw, _ := os.ReadFile(mpath)
	os.WriteFile(mpath, append(mraw, aux...), 0600)
	vpYAMLFile(mcfg, vpConfigDoc(mbase, 2))
	mmode := vpModes()
	ms, err := NewStore(mcfg, mmode, "", "", "")
	if err != nil {
		panic("setup: " + err.Error())
	}
	vpMaster = ms.GetInterface()
	vpMasterSessions, err = NewWebSessionFactory(vpLifetime * time.Second)
	if err != nil {
		panic("setup")
	}
	vpRemoteCalls = nil
	// the replica: u under set 1, default 2, upgrades = the master's URL
	_, st, base, cfg := vpAgent(2, url)
	before, mbefore := vpFsSnapshot(base), vpFsSnapshot(mbase)
	pw := "other"
	if vpChoose("password-kind", 2) == 0 {
		pw = vpStr("password", 3) // arbitrary: "old", "bad", "Old" ... are instances
	}
	ok, _, _, _ := st.Authenticate("u", pw)
	vpSettle()
	vpAssert("verdict", ok == (pw == "old"))
	changed, mchanged := !vpFsSame(before, vpFsSnapshot(base)), !vpFsSame(mbefore, vpFsSnapshot(mbase))
	if !ok {
		vpAssert("failed-login-sends-nothing-and-rewrites-nothing", len(vpRemoteCalls) == 0 && !changed && !mchanged)
	} else {
		// whatever was rewritten anywhere is the same password under the default set
		vpAssert("replica-untouched-or-rewritten-for-the-same-password", vpImp(changed, vpRewrittenCorrectly(cfg, base, "old", "")))
		vpAssert("master-untouched-or-rewritten-for-the-same-password", vpImp(mchanged, masterPw == "old" && vpRewrittenCorrectly(mcfg, mbase, "old", aux)))
		// the master re-authenticates: a diverged password there is never overwritten
		vpAssert("diverged-master-password-not-overwritten", vpImp(masterPw != "old", !mchanged))
		vpAssert("master-with-upgrades-off-not-modified", vpImp(mmode == "", !mchanged))
		// an idle master that upgrades locally does rewrite the record when the replica asks
		vpAssert("upgrade-happens-on-an-idle-master", vpImp(mmode == "local" && masterPw == "old", mchanged))
		if len(vpRemoteCalls) == 1 && vpRemoteCalls[0].method == "POST" && vpRemoteCalls[0].url == url {
			vpCover("one-post-to-the-configured-url")
		}
	}
	vpCover("end")
}

// VP_C12_RemoteUpgradeSurvivesOutage: while the master is unreachable (every request fails at
// the transport level) logins of an upgradeable user are still answered and nothing is
// rewritten; once the master is back, the next login's upgrade request reaches it and the
// (idle) master rewrites the record.
func VP_C12_RemoteUpgradeSurvivesOutage() {
	url := vpRemoteURL()
	mbase, mcfg := vpAgentDir(1)
	vpSeedUser(mcfg, "root", "rootpw", true)
	vpSeedUser(mcfg, "u", "old", false)
	vpYAMLFile(mcfg, vpConfigDoc(mbase, 2))
	ms, err := NewStore(mcfg, "local", "", "", "")
	if err != nil {
		panic("setup: " + err.Error())
	}
	sessions, err := NewWebSessionFactory(vpLifetime * time.Second)
	if err != nil {
		panic("setup")
	}
	vpMaster, vpMasterSessions, vpRemoteStalls = nil, sessions, false // nil master: the endpoint reports a transport error
	vpRemoteCalls = nil
	_, st, _, _ := vpAgent(2, url)
	mbefore := vpFsSnapshot(mbase)
	failures := 10 + vpChoose("failed-forwards", 3) // around the number of rate-limit slots
	for i := 0; i < failures; i++ {
		ok, _, _, _ := st.Authenticate("u", "old")
		vpAssert("login-answered-during-the-outage", ok)
		vpSettle()
	}
	vpAssert("nothing-rewritten-during-the-outage", vpFsSame(mbefore, vpFsSnapshot(mbase)))
	vpMaster = ms.GetInterface() // the master is back
	n0 := len(vpRemoteCalls)
	ok, _, _, _ := st.Authenticate("u", "old")
	vpSettle()
	vpAssert("login-answered-after-the-outage", ok)
	vpAssert("upgrade-request-reaches-the-master-again", len(vpRemoteCalls) > n0)
	vpAssert("upgrade-happens-on-the-idle-master-after-the-outage", vpRewrittenCorrectly(mcfg, mbase, "old", ""))
	vpCover("end")
}
