package main

// C03 through the frontends: a name that is not schema-valid never authenticates, whichever
// frontend it comes through. The store is the real agent (user "u" with password "old"); the name
// is "u", a path that aliases it, or nothing - followed by arbitrary bytes.

import (
	"net/http"
	"strings"
	"time"

	"github.com/glauth/ldap"
)

func VP_C03_FrontendsRejectInvalidNames() {
	_, st, _, cfg := vpAgent(1, "")
	name := []string{"u", "./u", "../store/u", ""}[vpChoose("stem", 4)] + vpStr("suffix", vpInt("suffixlen", 0, 2))
	accepted := false
	seen := name // the name the store is asked about
	switch vpChoose("frontend", 5) {
	case 0: // saslauthd callback (the codec hands the login over unaltered: VP_C03_SaslLoginReachesCallbackUnaltered)
		ok, _, err := callback(name, "old", "svc", "", "/sock", st)
		accepted = ok && err == nil
	case 1: // LDAP simple bind: the name is the bind name up to the first '@'
		code, err := ldapHandler{store: st}.Bind(name, "old", nil)
		accepted = code == ldap.LDAPResultSuccess && err == nil
		if i := strings.IndexByte(name, '@'); i >= 0 {
			seen = name[:i]
		}
	case 2: // HTTP API authenticate
		f, ferr := NewWebSessionFactory(vpLifetime * time.Second)
		if ferr != nil {
			panic("setup")
		}
		rec := vpNewRecorder()
		vpServe(handleWebAuthenticate, st, f, rec, vpReqWith(vpJSON(map[string]interface{}{"username": name, "password": "old"})))
		accepted = rec.status == 200
	case 3: // HTTP basic-auth: the transport splits user:password at the first ':'
		f, ferr := NewWebSessionFactory(vpLifetime * time.Second)
		if ferr != nil {
			panic("setup")
		}
		r := &http.Request{Method: "GET", Header: http.Header{}, RemoteAddr: "vp"}
		r.SetBasicAuth(name, "old")
		rec := vpNewRecorder()
		vpServe(handleWebBasicAuth, st, f, rec, r)
		accepted = rec.status == 200
		if i := strings.IndexByte(name, ':'); i >= 0 {
			seen = name[:i] // (the password then is not "old": never accepted)
		}
	case 4: // command line
		code, ok := vpExit(cmdAuthenticate(vpCliContext(vpGlobals(cfg, true), map[string]string{}, []string{name, "old"})))
		accepted = ok && code == 0 && name != "" // (an empty name prints the help text and exits 0)
	}
	// "u" is the only name whose password is "old"; every other spelling is either another
	// (absent) user or not a schema-valid name at all
	vpAssert("accepted-only-under-the-exact-valid-name", vpImp(accepted, seen == "u"))
	vpAssert("the-valid-name-is-accepted", vpImp(name == "u", accepted))
	vpCover("end")
}
