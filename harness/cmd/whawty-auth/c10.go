package main

// C10 / C11 / C12 — the real agent (NewStore: dispatcher, hooks runner, upgrader) under the
// cooperative scheduler.

import (
	"os"
	"path/filepath"
	"time"

	lib "github.com/whawty/auth/store"
)

// vpAgent: a store whose user "u" (password "old") has a record under set 1, while the
// configured default is def; plus admin "root".
func vpAgent(def int, mode string) (s *store, st *Store, base, cfg string) {
	return vpAgentRec(1, def, mode)
}

// vpAgentRec: as vpAgent, with the users' records written under parameter set recSet.
func vpAgentRec(recSet, def int, mode string) (s *store, st *Store, base, cfg string) {
	base, cfg = vpAgentDir(recSet)
	vpSeedUser(cfg, "root", "rootpw", true)
	vpSeedUser(cfg, "u", "old", false)
	vpYAMLFile(cfg, vpConfigDoc(base, def))
	var err error
	s, err = NewStore(cfg, mode, "", "", "")
	if err != nil {
		panic("setup: " + err.Error())
	}
	return s, s.GetInterface(), base, cfg
}

func vpModes() string { return []string{"", "local"}[vpChoose("upgrade-mode", 2)] }

// VP_C10_QueueStateStep: from every occupancy of the update queue, a login of an upgradeable
// user processed by the dispatcher's own code never blocks it.
func VP_C10_QueueStateStep() {
	mode := vpModes()
	s, _, _, _ := vpAgent(2, mode)
	// same wiring as NewStore built it, on queues no dispatcher drains: the state "n requests pending"
	s2 := *s
	s2.updateChan = make(chan updateRequest, cap(s.updateChan))
	if s.upgradeChan != nil {
		if s.upgradeChan == s.updateChan {
			s2.upgradeChan = s2.updateChan
		} else {
			s2.upgradeChan = make(chan updateRequest, cap(s.upgradeChan))
		}
	}
	n := vpInt("pending-updates", 0, cap(s2.updateChan))
	for i := 0; i < n; i++ {
		s2.updateChan <- updateRequest{username: "filler", password: "x", response: make(chan updateResult, 1)}
	}
	m := 0
	if s2.upgradeChan != nil && s.upgradeChan != s.updateChan {
		m = vpInt("pending-upgrades", 0, cap(s2.upgradeChan))
		for i := 0; i < m; i++ {
			s2.upgradeChan <- updateRequest{username: "filler", password: "x"}
		}
	}
	pw := []string{"old", "bad"}[vpChoose("password", 2)]
	done := make(chan bool, 1)
	var res authenticateResult
	go func() {
		res = s2.authenticate("u", pw) // what the dispatcher executes for an authenticate request
		done <- true
	}()
	answered := vpAwait(done)
	vpAssert("dispatcher-step-never-blocks", answered)
	if answered {
		vpAssert("verdict-unaffected-by-queue-state", res.ok == (pw == "old"))
	}
	vpCover("end")
}

// VP_C10_BoundedRuns: two concurrent clients, every schedule and select choice: every request is
// answered.
func VP_C10_BoundedRuns() {
	def, mode := 1+vpChoose("default", 2), vpModes()
	nk := 5
	if vpTier() == 0 {
		// quick: the two extreme configurations and the three request kinds that touch one user
		vpAssume((def == 1 && mode == "") || (def == 2 && mode == "local"))
		nk = 3
	}
	_, st, _, _ := vpAgent(def, mode)
	vpSchedExplore(true)
	done := make(chan bool, 2)
	kinds := []int{vpChoose("client1", nk), vpChoose("client2", nk)}
	for i := 0; i < 2; i++ {
		k := kinds[i]
		go func() {
			switch k {
			case 0:
				st.Authenticate("u", "old")
			case 1:
				st.Update("u", "new")
			case 2:
				st.Remove("u")
			case 3:
				st.Add("w", "wpw", false)
			case 4:
				st.List()
			}
			done <- true
		}()
	}
	a := vpAwait(done)
	b := vpAwait(done)
	vpSchedExplore(false)
	vpAssert("every-request-answered", a && b)
	// the agent keeps accepting new requests
	ok := make(chan bool, 1)
	go func() { st.Check(); ok <- true }()
	vpAssert("agent-still-serves-afterwards", vpAwait(ok))
	vpCover("end")
}

// ---- C12 ----

// VP_C12_UpgradeBehaviour: logins with an upgradeable hash, upgrades off / local.
func VP_C12_UpgradeBehaviour() {
	def := 1 + vpChoose("default", 2)
	mode := vpModes()
	vpArgonLen = []int{32, 8}[vpChoose("argon2id-digest-length", 2)]
	// auxiliary data after the record must survive an upgrade
	recSet := 1 + vpChoose("record-set", 2) // the record's set may be lower or higher than the default
	s, st, base, _ := vpAgentRec(recSet, def, mode)
	vpArgonLen = 32
	_ = s
	path := filepath.Join(base, "u.user")
	raw0, _ := os.ReadFile(path)
	aux := vpStr("aux", 2)
	if vpChoose("long-first-line", 2) == 1 {
		// the same record with a zero-padded time stamp: a first line longer than any I/O buffer
		f, _, okf := vpSplit5(string(raw0))
		if !okf {
			panic("setup")
		}
		pad := make([]byte, 4200)
		for i := range pad {
			pad[i] = '0'
		}
		raw0 = []byte(f[0] + ":" + string(pad) + f[1] + ":" + f[2] + ":" + f[3] + ":" + f[4] + "\n")
	}
	os.WriteFile(path, append(raw0, aux...), 0600)
	// the rewrite may be impossible (here: the work area is a regular file): then the record stays as it is
	obstructed := vpChoose("work-area-unusable", 2) == 1
	if obstructed {
		os.RemoveAll(filepath.Join(base, ".tmp"))
		os.WriteFile(filepath.Join(base, ".tmp"), []byte("x"), 0600)
	}
	before := vpFsSnapshot(base)
	pw := ""
	if vpChoose("password-kind", 2) == 0 {
		pw = vpStr("password", 3) // arbitrary: "old", "bad", "Old" ... are instances
	}
	ok, _, _, _ := st.Authenticate("u", pw)
	vpSettle()
	vpAssert("verdict", ok == (pw == "old"))
	changed := !vpFsSame(before, vpFsSnapshot(base))
	upgradeDue := mode == "local" && def != recSet && pw == "old" && !obstructed
	if obstructed {
		d, _ := lib.NewDirFromConfig(s.configfile)
		okAfter, _, _, _, _ := d.Authenticate("u", "old")
		vpAssert("login-whose-upgrade-cannot-be-written-leaves-the-record-usable", okAfter)
	}
	vpAssert("failed-or-current-or-disabled-login-never-rewrites", vpImp(!upgradeDue, !changed))
	if upgradeDue {
		vpAssert("upgrade-happens-on-an-idle-agent", changed)
		raw1, _ := os.ReadFile(path)
		f, rest, okf := vpSplit5(string(raw1))
		vpAssert("rewritten-under-the-default-set", okf && f[0] == []string{"", "argon2id", "hmac_sha256_scrypt"}[def] && f[2] == []string{"", "1", "2"}[def])
		vpAssert("auxiliary-data-unchanged", rest == aux)
		d, _ := lib.NewDirFromConfig(s.configfile)
		ok2, adm2, upg2, _, _ := d.Authenticate("u", "old")
		vpAssert("same-password-still-works-and-is-no-longer-upgradeable", ok2 && !upg2 && !adm2)
		_, e2 := os.Stat(filepath.Join(base, "u.admin"))
		vpAssert("admin-flag-unchanged", e2 != nil)
	}
	vpCover("end")
}

func vpSplit5(content string) (fields [5]string, rest string, ok bool) {
	nl := -1
	for i := 0; i < len(content); i++ {
		if content[i] == '\n' {
			nl = i
			break
		}
	}
	if nl < 0 {
		return fields, "", false
	}
	line := content[:nl]
	rest = content[nl+1:]
	k, start := 0, 0
	for i := 0; i <= len(line); i++ {
		if i == len(line) || line[i] == ':' {
			if k >= 5 {
				return fields, rest, false
			}
			fields[k] = line[start:i]
			k++
			start = i + 1
		}
	}
	return fields, rest, k == 5
}

// ---- C11 ----

// VP_C11_AcknowledgedChangeNeverUndone: a login and a password change of the same user race in
// every order; once the change is acknowledged and the agent is idle, the new password (and only
// it) works.
func VP_C11_AcknowledgedChangeNeverUndone() {
	def := 1 + vpChoose("default", 2)
	s, st, _, _ := vpAgent(def, vpModes())
	vpSchedExplore(true)
	done := make(chan bool, 2)
	var uerr error
	go func() { st.Authenticate("u", "old"); done <- true }()
	go func() { uerr = st.Update("u", "new"); done <- true }()
	a := vpAwait(done)
	b := vpAwait(done)
	vpSchedExplore(false)
	vpAssert("both-answered", a && b)
	vpSettle()
	vpAssert("update-acknowledged", uerr == nil)
	d, _ := lib.NewDirFromConfig(s.configfile)
	okNew, _, _, _, _ := d.Authenticate("u", "new")
	okOld, _, _, _, _ := d.Authenticate("u", "old")
	vpAssert("acknowledged-password-change-is-never-undone", okNew && !okOld)
	vpAssert("store-valid-when-idle", d.Check() == nil)
	vpCover("end")
}

// VP_C11_LinearizableRuns: two concurrent clients on overlapping users: every response equals the
// sequential semantics at some point consistent with real time (two orders), and the final
// state is that of the same order.
func VP_C11_LinearizableRuns() {
	s, st, _, _ := vpAgent(1, "")
	k1, k2 := vpChoose("client1", 5), vpChoose("client2", 5)
	fine := vpTier() == 1 && ((k1 == 0 && k2 == 1) || (k1 == 1 && k2 == 2) || (k1 == 1 && k2 == 4))
	if fine {
		// thorough: for login/update, update/remove and update/failed-login additionally one
		// preemption at any channel operation
		vpSchedExploreFine(1)
	} else {
		vpSchedExplore(true)
	}
	done := make(chan bool, 2)
	type resT struct {
		ok  bool
		err error
	}
	var r [2]resT
	run := func(i, k int) {
		switch k {
		case 0:
			ok, _, _, e := st.Authenticate("u", "old")
			r[i] = resT{ok, e}
		case 1:
			r[i] = resT{true, st.Update("u", "new")}
		case 2:
			r[i] = resT{true, st.Remove("u")}
		case 3:
			r[i] = resT{true, st.Add("u", "third", false)}
		case 4:
			ok, _, _, e := st.Authenticate("u", "bad")
			r[i] = resT{ok, e}
		}
		done <- true
	}
	go run(0, k1)
	go run(1, k2)
	a := vpAwait(done)
	b := vpAwait(done)
	vpSchedExploreFine(0)
	vpSchedExplore(false)
	vpAssert("both-answered", a && b)
	vpSettle()
	d, _ := lib.NewDirFromConfig(s.configfile)
	// sequential specification over the single user u (password or absent)
	type specT struct {
		present bool
		pw      string
	}
	apply := func(sp specT, k int) (specT, bool, bool) { // new state, ok, errored
		switch k {
		case 0:
			return sp, sp.present && sp.pw == "old", !(sp.present && sp.pw == "old")
		case 1:
			if !sp.present {
				return sp, true, true
			}
			return specT{true, "new"}, true, false
		case 2:
			return specT{}, true, false
		case 3:
			if sp.present {
				return sp, true, true
			}
			return specT{true, "third"}, true, false
		default:
			return sp, sp.present && sp.pw == "bad", true
		}
	}
	matches := func(first, second int, rf, rs resT) bool {
		sp := specT{true, "old"}
		sp, ok1, e1 := apply(sp, first)
		if rf.ok != ok1 || (rf.err != nil) != e1 {
			return false
		}
		sp, ok2, e2 := apply(sp, second)
		if rs.ok != ok2 || (rs.err != nil) != e2 {
			return false
		}
		ex, _, _ := d.Exists("u")
		if ex != sp.present {
			return false
		}
		if sp.present {
			okp, _, _, _, _ := d.Authenticate("u", sp.pw)
			return okp
		}
		return true
	}
	vpAssert("history-is-linearizable", matches(k1, k2, r[0], r[1]) || matches(k2, k1, r[1], r[0]))
	vpAssert("store-valid-when-idle", d.Check() == nil)
	vpCover("end")
}

// VP_C11_OwnAnswers: two concurrent logins with different verdicts, every preemption point at
// channel operations: each caller receives the answer to its own request.
func VP_C11_OwnAnswers() {
	_, st, _, _ := vpAgent(1, "")
	st.Check() // agent up
	vpSchedExploreFine(2)
	done := make(chan bool, 2)
	var ok1, ok2 bool
	go func() { ok1, _, _, _ = st.Authenticate("u", "old"); done <- true }()
	go func() { ok2, _, _, _ = st.Authenticate("u", "bad"); done <- true }()
	a := vpAwait(done)
	b := vpAwait(done)
	vpSchedExploreFine(0)
	vpAssert("both-answered", a && b)
	vpAssert("sched: each-caller-gets-its-own-answer", ok1 && !ok2)
	vpCover("end")
}

// VP_C10_RemoteMasterStalls: remote upgrade mode with a master that accepts every request and
// never answers: logins of an upgradeable user keep being answered, however many there are
// (more than every queue and rate-limit slot on the way holds).
func VP_C10_RemoteMasterStalls() {
	url := vpRemoteURL()
	vpRemoteStalls = true
	vpMaster = nil
	_, st, _, _ := vpAgent(2, url)
	n := 45
	for i := 0; i < n; i++ {
		done := make(chan bool, 1)
		go func() {
			ok, _, _, _ := st.Authenticate("u", "old")
			done <- ok
		}()
		vpAssert("login-answered-while-the-master-stalls", vpAwait(done))
	}
	ok := make(chan bool, 1)
	go func() { st.Check(); ok <- true }()
	vpAssert("agent-still-serves-other-requests", vpAwait(ok))
	vpCover("end")
}

// VP_C10_HooksBurstThenManyChanges: with a hooks directory configured, a burst of changes inside
// one rate-limit window, the window's expiry, and then more changes than the notification queue
// holds: every change is answered.
func VP_C10_HooksBurstThenManyChanges() {
	if !vpSymbolic() {
		return // the rate limit is 5 s of real time natively; the timer is driven by the engine here
	}
	base, cfg := vpAgentDir(1)
	_ = base
	vpSeedUser(cfg, "root", "rootpw", true)
	vpSeedUser(cfg, "u", "old", false)
	dir := filepath.Join(filepath.Dir(cfg), "hooks")
	os.Mkdir(dir, 0755)
	os.WriteFile(filepath.Join(dir, "hook"), []byte("#!/bin/sh\n"), 0755)
	vpHookBehaviour(0)
	s, err := NewStore(cfg, "", "", "", dir)
	if err != nil {
		panic("setup: " + err.Error())
	}
	st := s.GetInterface()
	change := func(i int) bool {
		done := make(chan bool, 1)
		go func() { st.SetAdmin("u", i%2 == 0); done <- true }()
		return vpAwait(done)
	}
	burst := 1 + vpChoose("burst", 3)
	for i := 0; i < burst; i++ {
		vpAssert("model: change-in-the-burst-answered", change(i))
	}
	vpSettle()
	if vpChoose("window-expires", 2) == 1 {
		vpFireTimers()
		vpSettle()
	}
	for i := 0; i < 40; i++ {
		vpAssert("model: later-change-answered", change(i))
		if i%8 == 7 && vpChoose("expiry-in-between", 2) == 1 {
			vpFireTimers()
			vpSettle()
		}
	}
	vpCover("end")
}

// VP_C11_ListReflectsAcknowledgedState: what list / list-full answer is the state left by the
// operations completed before it - also after the agent changed a record on its own (a local
// hash upgrade) - i.e. exactly what the store directory says.
func VP_C11_ListReflectsAcknowledgedState() {
	def := 1 + vpChoose("default", 2)
	s, st, _, _ := vpAgent(def, vpModes())
	same := func() bool {
		got, gerr := st.List()
		d, _ := lib.NewDirFromConfig(s.configfile)
		want, werr := d.List()
		if (gerr != nil) != (werr != nil) || len(got) != len(want) {
			return false
		}
		for name, w := range want {
			g, ok := got[name]
			if !ok || g.IsAdmin != w.IsAdmin || !g.LastChanged.Equal(w.LastChanged) {
				return false
			}
		}
		return true
	}
	vpAssert("list-equals-the-directory", same())
	vpSleep(2) // a later change carries a later time stamp
	switch vpChoose("then", 4) {
	case 0:
		st.Authenticate("u", "old") // queues a local upgrade if the hash is upgradeable
	case 1:
		st.Update("u", "new")
	case 2:
		st.SetAdmin("u", true)
	case 3:
		st.Add("w", "wpw", false)
	}
	vpSettle()
	vpAssert("list-equals-the-directory-after-the-change", same())
	vpCover("end")
}

// VP_C11_WebUpdateRacesPasswordChange: the HTTP update handler (a request that carries the
// current password) runs while another client changes that user's password; every interleaving
// at blocking points: an acknowledged change is never undone by the older request.
func VP_C11_WebUpdateRacesPasswordChange() {
	mode := ""
	if vpTier() == 1 {
		mode = vpModes()
	}
	s, st, _, _ := vpAgent(1, mode)
	f, err := NewWebSessionFactory(vpLifetime * time.Second)
	if err != nil {
		panic("setup")
	}
	doc := map[string]interface{}{"username": "u", "oldpassword": "old"}
	withNew := vpChoose("handler-sets-a-new-password", 2) == 1
	if withNew {
		doc["newpassword"] = "viaweb"
	}
	rec := vpNewRecorder()
	body := vpJSON(doc)
	vpSchedExplore(true)
	done := make(chan bool, 2)
	var uerr error
	go func() { vpServe(handleWebUpdate, st, f, rec, vpReqWith(body)); done <- true }()
	go func() { uerr = st.Update("u", "new"); done <- true }()
	a := vpAwait(done)
	b := vpAwait(done)
	vpSchedExplore(false)
	vpAssert("both-answered", a && b)
	vpSettle()
	d, _ := lib.NewDirFromConfig(s.configfile)
	okOld, _, _, _, _ := d.Authenticate("u", "old")
	okNew, _, _, _, _ := d.Authenticate("u", "new")
	okWeb, _, _, _, _ := d.Authenticate("u", "viaweb")
	webDone := withNew && rec.status == 200
	// the two sequential orders: exactly one password works afterwards - the one written last;
	// the old one only if nothing was written at all
	vpAssert("sched: acknowledged-change-is-not-undone-by-the-web-request", vpImp(uerr == nil && !webDone, okNew && !okOld))
	vpAssert("sched: exactly-one-password-works-afterwards", (okOld && !okNew && !okWeb) || (!okOld && okNew && !okWeb) || (!okOld && !okNew && okWeb))
	vpCover("end")
}

// VP_C10_TimersFiringAnywhere: two concurrent logins while every armed timer may expire at an
// arbitrary point (a slow machine: whatever deadline the code sets itself can pass while a
// request is queued): both callers get an answer and the agent serves the next request.
func VP_C10_TimersFiringAnywhere() {
	if !vpSymbolic() {
		return // timer expiry is driven by the engine
	}
	_, st, _, _ := vpAgent(1, "")
	vpSchedExplore(true)
	done := make(chan bool, 2)
	for i := 0; i < 2; i++ {
		pw := []string{"old", "bad"}[i]
		go func() { st.Authenticate("u", pw); done <- true }()
	}
	for k := 0; k < 2; k++ {
		vpYield()
		vpFireTimers()
	}
	a := vpAwait(done)
	b := vpAwait(done)
	vpSchedExplore(false)
	vpAssert("model: both-callers-get-an-answer", a && b)
	ok := make(chan bool, 1)
	go func() { st.Check(); ok <- true }()
	vpAssert("model: agent-still-serves-afterwards", vpAwait(ok))
	vpCover("end")
}
