package main

// C07 — session tokens are unforgeable, instance-bound, identity-bound and expire.

import (
	"encoding/base64"
	"net/http"
	"strconv"
	"strings"
	"time"
)

const vpLifetime = 3 // seconds (the production value 600 s is checked in VP_C07_Lifetime600)

type vpToken struct {
	text        string
	user        string
	admin       bool
	tLo, tHi    time.Time // clock readings just before and just after issuing
	nonce, ctxt []byte
}

func vpIssue(f *webSessionFactory, label string) vpToken {
	return vpIssueAs(f, vpStr(label+"-user", vpChoose(label+"-userlen", 2+vpTier())), vpChoose(label+"-admin", 2) == 1)
}

func vpIssueAs(f *webSessionFactory, u string, adm bool) vpToken {
	lo := time.Now()
	st, _, s := f.Generate(u, adm)
	hi := time.Now()
	vpAssert("generate-ok", st == http.StatusOK)
	t := vpToken{text: s, user: u, admin: adm, tLo: lo, tHi: hi}
	t.nonce, t.ctxt, _ = vpDecodeToken(s)
	return t
}

// vpMutPos: quick tier: representative positions (ends, around the separator, last data and
// padding characters); thorough tier: every position.
func vpMutPos(n, sep int) int {
	if vpTier() == 1 {
		return vpInt("pos", 0, n-1)
	}
	c := []int{0, 1, sep - 2, sep - 1, sep, sep + 1, n - 3, n - 2, n - 1}
	return c[vpChoose("pos", len(c))]
}

// vpDecodeToken is the reference decoding of the token text: nonce ':' ciphertext, base64url.
func vpDecodeToken(s string) (nonce, ct []byte, ok bool) {
	i := strings.IndexByte(s, ':')
	if i < 0 {
		return nil, nil, false
	}
	n, e1 := base64.URLEncoding.DecodeString(s[:i])
	c, e2 := base64.URLEncoding.DecodeString(s[i+1:])
	if e1 != nil || e2 != nil {
		return nil, nil, false
	}
	return n, c, true
}

type vpCheckRes struct {
	status   int
	user     string
	admin    bool
	panicked bool
}

func vpCheck(f *webSessionFactory, s string) (r vpCheckRes) {
	defer func() {
		if recover() != nil {
			r = vpCheckRes{status: -1, panicked: true}
		}
	}()
	st, _, u, a := f.Check(s)
	return vpCheckRes{status: st, user: u, admin: a}
}

// VP_C07_IssuedOnly: whatever string is presented, acceptance implies that its decoded content
// is exactly that of a token this factory issued, within the lifetime, with the issued identity.
func VP_C07_IssuedOnly() {
	fa, e1 := NewWebSessionFactory(vpLifetime * time.Second)
	fb, e2 := NewWebSessionFactory(vpLifetime * time.Second)
	if e1 != nil || e2 != nil {
		panic("setup")
	}
	t1 := vpIssue(fa, "t1")
	t2 := vpIssueAs(fa, "b", !t1.admin)
	tb := vpIssueAs(fb, t1.user, t1.admin)
	vpSleep(vpInt("gap", 0, 7))
	var s string
	switch vpChoose("presented", 11) {
	case 0:
		s = t1.text
	case 1:
		s = t2.text
	case 2: // other instance's token
		s = tb.text
	case 3: // splice: nonce of one, ciphertext of the other
		s = t1.text[:strings.IndexByte(t1.text, ':')] + t2.text[strings.IndexByte(t2.text, ':'):]
	case 4: // splice across instances
		s = t1.text[:strings.IndexByte(t1.text, ':')] + tb.text[strings.IndexByte(tb.text, ':'):]
	case 5: // one character changed
		b := []byte(t1.text)
		p := vpMutPos(len(b), strings.IndexByte(t1.text, ':'))
		c := vpByte("char")
		vpAssume(c != b[p])
		b[p] = c
		s = string(b)
	case 6: // truncated
		s = t1.text[:vpMutPos(len(t1.text), strings.IndexByte(t1.text, ':'))]
	case 7: // extended
		s = t1.text + vpStr("suffix", 1+vpChoose("suffixlen", 2))
	case 8: // arbitrary short text
		s = vpStr("raw", vpInt("rawlen", 0, 6))
	case 9: // decoded nonce extended / truncated, re-encoded canonically
		n2 := append(append([]byte{}, t1.nonce...), vpBytes("nonce-extra", 1+11*vpChoose("nonce-extra-len", 2))...)
		if vpChoose("nonce-cut", 2) == 1 {
			n2 = t1.nonce[:11]
		}
		s = base64.URLEncoding.EncodeToString(n2) + t1.text[strings.IndexByte(t1.text, ':'):]
	case 10: // decoded ciphertext extended / truncated, re-encoded canonically
		c2 := append(append([]byte{}, t1.ctxt...), vpByte("ct-extra"))
		if vpChoose("ct-cut", 2) == 1 {
			c2 = t1.ctxt[:len(t1.ctxt)-1]
		}
		s = t1.text[:strings.IndexByte(t1.text, ':')+1] + base64.URLEncoding.EncodeToString(c2)
	}
	cLo := time.Now()
	r := vpCheck(fa, s)
	cHi := time.Now()
	n, c, ok := vpDecodeToken(s)
	is1 := ok && vpBytesEq(n, t1.nonce) && vpBytesEq(c, t1.ctxt)
	is2 := ok && vpBytesEq(n, t2.nonce) && vpBytesEq(c, t2.ctxt)
	accepted := r.status == http.StatusOK
	vpAssert("accepted-only-if-decoded-content-is-an-issued-token-of-this-instance", vpImp(accepted, vpOr(is1, is2)))
	a1 := vpAnd(accepted, is1)
	a2 := vpAnd(accepted, vpAnd(is2, !is1))
	vpAssert("accepted-identity-is-the-issued-one", vpAnd(vpImp(a1, r.user == t1.user && r.admin == t1.admin), vpImp(a2, r.user == t2.user && r.admin == t2.admin)))
	// exact at clock resolution: the token's age at the check is at least cLo - tHi and at most cHi - tLo
	const life = vpLifetime * time.Second
	vpAssert("accepted-only-within-lifetime", vpAnd(vpImp(a1, cLo.Sub(t1.tHi) <= life), vpImp(a2, cLo.Sub(t2.tHi) <= life)))
	// (user names containing ':' are not schema-valid; such tokens are never accepted at all;
	// the token carries whole seconds, so up to one second of the lifetime may be lost)
	vpAssert("fresh-issued-token-is-accepted", vpImp(vpAnd(vpAnd(is1, strings.IndexByte(t1.user, ':') < 0), cHi.Sub(t1.tLo) <= life-time.Second), accepted))
	vpAssert("expired-token-is-rejected", vpImp(vpAnd(is1, cLo.Sub(t1.tHi) > life), !accepted))
	vpCover("end")
}

// refSessionPlain is the reference parser of the token plaintext (F.8).
func refSessionPlain(p string) (user string, admin bool, ts int64, ok bool) {
	i := strings.IndexByte(p, ':')
	if i < 0 {
		return
	}
	rest := p[i+1:]
	j := strings.IndexByte(rest, ':')
	if j < 0 {
		return
	}
	user = p[:i]
	switch rest[:j] {
	case "true":
		admin = true
	case "false":
	default:
		return
	}
	t := rest[j+1:]
	neg := false
	if len(t) > 0 && (t[0] == '-' || t[0] == '+') {
		neg = t[0] == '-'
		t = t[1:]
	}
	if len(t) == 0 || len(t) > 18 {
		return
	}
	var v int64
	for k := 0; k < len(t); k++ {
		if t[k] < '0' || t[k] > '9' {
			return
		}
		v = v*10 + int64(t[k]-'0')
	}
	if neg {
		v = -v
	}
	return user, admin, v, true
}

// VP_C07_PlaintextParser: arbitrary plaintexts sealed with the factory's own AEAD: acceptance
// implies three fields, a strict boolean, a decimal time inside the window.
func VP_C07_PlaintextParser() {
	f, err := NewWebSessionFactory(vpLifetime * time.Second)
	if err != nil {
		panic("setup")
	}
	var plain string
	now := time.Now().Unix()
	switch vpChoose("family", 3) {
	case 0:
		plain = vpStr("plain", vpInt("plainlen", 0, 6+2*vpTier()))
	case 1: // arbitrary admin field around a current time stamp
		plain = "u:" + vpStr("flag", vpInt("flaglen", 0, 5)) + ":" + strconv.FormatInt(now, 10)
	case 2: // arbitrary time field
		plain = "u:true:" + vpStr("time", vpInt("timelen", 0, 2+vpTier()))
	}
	nonce := vpBytes("nonce", 12)
	ct := f.aesgcm.Seal(nil, nonce, []byte(plain), nil)
	s := base64.URLEncoding.EncodeToString(nonce) + ":" + base64.URLEncoding.EncodeToString(ct)
	cLo := time.Now()
	r := vpCheck(f, s)
	cHi := time.Now()
	u, adm, ts, ok := refSessionPlain(plain)
	accepted := r.status == http.StatusOK
	vpAssert("no-panic", !r.panicked)
	vpAssert("accepted-only-if-plaintext-wellformed", vpImp(accepted, ok))
	ao := vpAnd(accepted, ok)
	vpAssert("accepted-fields-are-the-plaintext-fields", vpImp(ao, r.user == u && r.admin == adm))
	stated := time.Unix(ts, 0)
	vpAssert("accepted-only-inside-the-time-window", vpImp(ao, vpAnd(cHi.Sub(stated) >= 0, cLo.Sub(stated) <= vpLifetime*time.Second)))
	vpAssert("wellformed-current-plaintext-accepted", vpImp(vpAnd(ok, vpAnd(cLo.Sub(stated) >= 0, cHi.Sub(stated) <= vpLifetime*time.Second)), accepted))
	vpCover("end")
}

// VP_C07_NonceFresh: no two issued tokens share an encryption nonce; the nonce is random.
func VP_C07_NonceFresh() {
	f, err := NewWebSessionFactory(vpLifetime * time.Second)
	if err != nil {
		panic("setup")
	}
	vpWriteSetBegin()
	t1 := vpIssue(f, "t1")
	t2 := vpIssue(f, "t2")
	// issuing tokens writes no state that existed before the call: concurrent handlers cannot
	// interfere through the factory (thread-safety by absence of shared writes)
	vpAssert("model: issuing-writes-no-shared-state", vpWritesOnlyFresh())
	vpAssert("nonce-size-96-bits", len(t1.nonce) == 12 && len(t2.nonce) == 12)
	vpAssert("nonces-differ", !vpBytesEq(t1.nonce, t2.nonce))
	vpAssert("model: nonce-is-fresh-random", vpFreshBytes(t1.nonce) && vpFreshBytes(t2.nonce))
	vpCover("end")
}

// VP_C07_RepeatedChecks: a token is presented more than once and between other tokens (what the
// API handlers do all day): every single verdict follows the token's own age since it was issued -
// not the time of an earlier successful check -, and what an earlier check returned stays what it
// was while later checks run.
func VP_C07_RepeatedChecks() {
	f, err := NewWebSessionFactory(vpLifetime * time.Second)
	if err != nil {
		panic("setup")
	}
	t1 := vpIssueAs(f, vpStr("t1-user", 1+vpChoose("t1-userlen", 2)), vpChoose("t1-admin", 2) == 1)
	t2 := vpIssueAs(f, vpStr("t2-user", 1+vpChoose("t2-userlen", 2)), !t1.admin)
	vpAssume(strings.IndexByte(t1.user, ':') < 0 && strings.IndexByte(t2.user, ':') < 0)
	const life = vpLifetime * time.Second
	vpSleep(vpInt("gap1", 0, 4))
	aLo := time.Now()
	r1 := vpCheck(f, t1.text)
	aHi := time.Now()
	u1 := r1.user // the value a handler keeps using after the call
	acc1 := r1.status == http.StatusOK
	vpAssert("first-check-within-lifetime-accepted", vpImp(aHi.Sub(t1.tLo) <= life-time.Second, acc1))
	vpAssert("first-check-after-lifetime-rejected", vpImp(aLo.Sub(t1.tHi) > life, !acc1))
	vpAssert("first-check-identity", vpImp(acc1, u1 == t1.user && r1.admin == t1.admin))
	// another session is checked in between
	r2 := vpCheck(f, t2.text)
	acc2 := r2.status == http.StatusOK
	vpAssert("other-token-identity", vpImp(acc2, r2.user == t2.user && r2.admin == t2.admin))
	vpAssert("earlier-result-unchanged-by-a-later-check", vpImp(acc1, u1 == t1.user))
	vpSleep(vpInt("gap2", 0, 4))
	bLo := time.Now()
	r3 := vpCheck(f, t1.text)
	bHi := time.Now()
	acc3 := r3.status == http.StatusOK
	vpAssert("repeated-check-within-lifetime-accepted", vpImp(bHi.Sub(t1.tLo) <= life-time.Second, acc3))
	vpAssert("repeated-check-after-lifetime-rejected", vpImp(bLo.Sub(t1.tHi) > life, !acc3))
	vpAssert("repeated-check-identity", vpImp(acc3, r3.user == t1.user && r3.admin == t1.admin))
	vpAssert("other-result-unchanged-by-a-later-check", vpImp(acc2, r2.user == t2.user))
	vpAssert("no-panic", !r1.panicked && !r2.panicked && !r3.panicked)
	vpCover("end")
}
