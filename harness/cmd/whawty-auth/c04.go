package main

// C04 — every frontend returns exactly the store's verdict for the submitted credentials.
// Wiring units: each frontend talks to a scripted store behind the real Store interface.

import (
	"net/http"
	"strings"
	"time"

	"github.com/glauth/ldap"
	lib "github.com/whawty/auth/store"
)

func vpCredPair() (string, string) {
	return vpStr("name", vpInt("namelen", 0, 3)), vpStr("password", vpInt("passwordlen", 0, 3))
}

func vpAskedOnceWith(fake *vpFake, name, pw string) {
	vpAssert("store-asked-exactly-once", fake.count("authenticate") == 1 && len(fake.calls) == 1)
	if fake.count("authenticate") == 1 {
		a := fake.last("authenticate")
		vpAssert("name-and-password-reach-the-store-byte-identical", a.user == name && a.password == pw)
	}
}

// saslauthd callback
func VP_C04_SaslCallback() {
	fake := vpScriptStore()
	st := vpFakeStore(fake)
	name, pw := vpCredPair()
	ok, _, err := callback(name, pw, vpStr("service", 1), vpStr("realm", 1), "/sock", st)
	vpAskedOnceWith(fake, name, pw)
	vpAssert("sasl-accepts-iff-store-accepts-without-error", (ok && err == nil) == (fake.authOK && fake.authErr == nil))
	vpAssert("sasl-internal-error-is-a-denial", vpImp(fake.authErr != nil, !ok))
	vpCover("end")
}

// LDAP simple bind: user name = bind name up to the first '@'
func VP_C04_LdapBind() {
	fake := vpScriptStore()
	st := vpFakeStore(fake)
	dn := vpStr("binddn", vpInt("binddnlen", 0, 4))
	pw := vpStr("password", vpInt("passwordlen", 0, 2))
	code, err := ldapHandler{store: st}.Bind(dn, pw, nil)
	want := dn
	if i := strings.IndexByte(dn, '@'); i >= 0 {
		want = dn[:i]
	}
	vpAskedOnceWith(fake, want, pw)
	accepted := code == ldap.LDAPResultSuccess && err == nil
	// an error from the store comes with ok=false (store contract, checked in C01); the frontend looks at ok only
	vpAssert("ldap-accepts-iff-store-accepts", accepted == fake.authOK)
	vpAssert("ldap-denial-is-invalid-credentials", vpImp(!accepted, code == ldap.LDAPResultInvalidCredentials))
	vpCover("end")
}

// HTTP basic-auth
func VP_C04_BasicAuth() {
	fake := vpScriptStore()
	st := vpFakeStore(fake)
	f, ferr := NewWebSessionFactory(vpLifetime * time.Second)
	if ferr != nil {
		panic("setup")
	}
	name, pw := vpCredPair()
	r := &http.Request{Method: "GET", Header: http.Header{}, RemoteAddr: "vp"}
	withHeader := vpChoose("with-authorization-header", 2) == 1
	if withHeader {
		r.SetBasicAuth(name, pw)
	}
	rec := vpNewRecorder()
	vpServe(handleWebBasicAuth, st, f, rec, r)
	vpAssert("handler-does-not-panic", !rec.panicked)
	if !withHeader {
		vpAssert("no-credentials-no-store-request", len(fake.calls) == 0 && rec.status == 401)
	} else {
		// basic-auth cannot carry a ':' in the user name: the transport splits at the first ':'
		wn, wp := name, pw
		if i := strings.IndexByte(name+":"+pw, ':'); i >= 0 {
			wn, wp = (name + ":" + pw)[:i], (name + ":" + pw)[i+1:]
		}
		vpAskedOnceWith(fake, wn, wp)
		vpAssert("basic-auth-200-iff-store-accepts-without-error", (rec.status == 200) == (fake.authOK && fake.authErr == nil))
		vpAssert("basic-auth-denial-is-401", vpImp(rec.status != 200, rec.status == 401))
	}
	vpCover("end")
}

// HTTP API authenticate (wiring part; authorisation part is C06)
func VP_C04_ApiAuthenticate() {
	fake := vpScriptStore()
	st := vpFakeStore(fake)
	f, ferr := NewWebSessionFactory(vpLifetime * time.Second)
	if ferr != nil {
		panic("setup")
	}
	name, pw := vpCredPair()
	rec := vpNewRecorder()
	vpServe(handleWebAuthenticate, st, f, rec, vpReqWith(vpJSON(map[string]interface{}{"username": name, "password": pw})))
	vpAssert("handler-does-not-panic", !rec.panicked)
	if name == "" || pw == "" {
		vpAssert("empty-field-refused-without-store-request", len(fake.calls) == 0 && rec.status == 400)
	} else {
		vpAskedOnceWith(fake, name, pw)
		vpAssert("api-200-iff-store-accepts-without-error", (rec.status == 200) == (fake.authOK && fake.authErr == nil))
	}
	vpCover("end")
}

// The agent's request interface returns what the dispatcher computed, on the caller's own channel.
func VP_C04_StoreInterfaceRoundTrip() {
	fake := vpScriptStore()
	st := vpFakeStore(fake)
	name, pw := vpCredPair()
	ok, adm, _, err := st.Authenticate(name, pw)
	vpAskedOnceWith(fake, name, pw)
	vpAssert("interface-returns-the-dispatcher-verdict", ok == fake.authOK && adm == fake.authAdm && (err != nil) == (fake.authErr != nil))
	vpCover("end")
}

// VP_C04_ConcurrentVerdicts: two clients of one listener (one shared *Store handle) submit
// different credentials at the same time, under every schedule at blocking points: each gets the
// store's verdict for its own credentials.
func VP_C04_ConcurrentVerdicts() {
	_, st, _, _ := vpAgent(1, "")
	names := [2]string{"u", "u"}
	pws := [2]string{"old", "bad"}
	if vpTier() == 1 {
		names[1] = []string{"u", "root"}[vpChoose("name2", 2)]
		pws = [2]string{[]string{"old", "bad"}[vpChoose("password1", 2)], []string{"bad", "old", "rootpw"}[vpChoose("password2", 3)]}
	}
	vpSchedExploreFine(1) // switches at blocking points plus one preemption at any channel operation
	done := make(chan bool, 2)
	var oks [2]bool
	var errs [2]error
	for i := 0; i < 2; i++ {
		i := i
		go func() {
			oks[i], _, _, errs[i] = st.Authenticate(names[i], pws[i])
			done <- true
		}()
	}
	a := vpAwait(done)
	b := vpAwait(done)
	vpSchedExplore(false)
	vpAssert("both-answered", a && b)
	for i := 0; i < 2; i++ {
		right := (names[i] == "u" && pws[i] == "old") || (names[i] == "root" && pws[i] == "rootpw")
		vpAssert("sched: each-client-gets-the-verdict-for-its-own-credentials", oks[i] == right)
		vpAssert("sched: accepted-only-without-error", vpImp(oks[i], errs[i] == nil))
	}
	vpCover("end")
}

// VP_C04_VerdictIndependentOfPolicy: the password policy governs what may be *stored*; a stored
// password authenticates through the agent exactly as the store says, whatever policy the agent
// runs with (the record may predate the policy or have been written through the library).
func VP_C04_VerdictIndependentOfPolicy() {
	base, cfg := vpAgentDir(1)
	_ = base
	vpSeedUser(cfg, "root", "rootpw", true)
	vpSeedUser(cfg, "u", "old", false)
	cond := []string{"score >= 3", "entropy >= 60", "time >= 100000"}[vpChoose("condition", 3)]
	s, err := NewStore(cfg, "", "zxcvbn", cond, "")
	if err != nil {
		panic("setup: " + err.Error())
	}
	st := s.GetInterface()
	pw := []string{"old", "bad"}[vpChoose("password", 2)]
	d, _ := lib.NewDirFromConfig(cfg)
	want, _, _, _, _ := d.Authenticate("u", pw)
	ok, _, _, aerr := st.Authenticate("u", pw)
	vpAssert("agent-accepts-iff-the-store-accepts-whatever-the-policy", ok == want)
	vpAssert("accepted-only-without-error", vpImp(ok, aerr == nil))
	vpCover("end")
}
