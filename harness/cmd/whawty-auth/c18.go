package main

// C18 — configuration loading is exact and reload is all-or-nothing.

import (
	"os"
	"path/filepath"

	lib "github.com/whawty/auth/store"
)

type vpSetSpec struct {
	id      int
	argon   bool
	scrypt  bool
	time    int
	threads int
	length  int
	cost    int
	keyOK   bool
}

// VP_C18_LoaderExact: the loader accepts exactly the well-formed configurations and the
// resulting store has exactly the configured base dir, default and sets.
func VP_C18_LoaderExact() {
	root := vpTempDir()
	cfg := filepath.Join(root, "c.yaml")
	basedir := []string{"", filepath.Join(root, "store")}[vpChoose("basedir", 2)]
	// first set: full variety; second set: one of four variants (absent, a valid other set, a
	// duplicate id with the other algorithm, the reserved id 0)
	var sets []vpSetSpec
	var params []interface{}
	addSet := func(s vpSetSpec, key string) {
		m := map[string]interface{}{"id": s.id}
		if s.argon {
			m["argon2id"] = map[string]interface{}{"time": s.time, "memory": 8, "threads": s.threads, "length": s.length}
		}
		if s.scrypt {
			m["scryptauth"] = map[string]interface{}{"hmackey": key, "cost": s.cost}
		}
		sets = append(sets, s)
		params = append(params, m)
	}
	if vpChoose("first-set", 2) == 1 {
		s := vpSetSpec{id: []int{0, 1}[vpChoose("id", 2)], time: 1, threads: 1, length: 32, cost: 2, keyOK: true}
		key := vpHmacKeyB64
		switch vpChoose("algo", 4) {
		case 0:
			s.argon = true
		case 1:
			s.scrypt = true
		case 2:
			s.argon, s.scrypt = true, true
		}
		if s.scrypt {
			switch vpChoose("keykind", 3) {
			case 1:
				key, s.keyOK = "c2hvcnQ=", false // 5 bytes
			case 2:
				key, s.keyOK = "not base64!", false
			}
			s.cost = []int{2, 31, 32}[vpChoose("cost", 3)]
		}
		addSet(s, key)
		switch vpChoose("second-set", 4) {
		case 1:
			addSet(vpSetSpec{id: 2, argon: true, time: 1, threads: 1, length: 32, keyOK: true}, "")
		case 2:
			addSet(vpSetSpec{id: s.id, scrypt: true, cost: 2, keyOK: true}, vpHmacKeyB64)
		case 3:
			addSet(vpSetSpec{id: 0, argon: true, time: 1, threads: 1, length: 32, keyOK: true}, "")
		}
	}
	nsets := len(sets)
	def := vpChoose("default", 3)
	doc := map[string]interface{}{"basedir": basedir, "default": def}
	if nsets > 0 || vpChoose("empty-params-key", 2) == 1 {
		doc["params"] = params
	}
	unknownKey := vpChoose("unknown-key", 4)
	switch unknownKey {
	case 3: // a misspelt key inside the algorithm's own map
		unknownKey = 0
		if nsets > 0 {
			for _, alg := range []string{"argon2id", "scryptauth"} {
				if m, ok := params[0].(map[string]interface{})[alg].(map[string]interface{}); ok {
					m["memmory"] = 8
					unknownKey = 3
				}
			}
		}
	case 1:
		doc["basedirr"] = "x"
	case 2:
		if nsets > 0 {
			params[0].(map[string]interface{})["bcrypt"] = map[string]interface{}{"cost": 4}
		} else {
			unknownKey = 0
		}
	}
	if nsets == 0 && def == 0 && vpChoose("malformed", 2) == 1 {
		vpYAMLFile(cfg, nil)
		_, err := lib.NewDirFromConfig(cfg)
		vpAssert("malformed-document-refused", err != nil)
		vpCover("malformed")
		return
	}
	vpYAMLFile(cfg, doc)
	d, err := lib.NewDirFromConfig(cfg)
	// reference validity predicate (F.5), evaluated in the loader's order of discovery
	valid := basedir != "" && unknownKey == 0
	defined := map[int]bool{}
	for _, s := range sets {
		if s.id == 0 || (s.argon && s.scrypt) || (!s.argon && !s.scrypt) {
			valid = false
		}
		if s.scrypt && (!s.keyOK || s.cost > 31) {
			valid = false
		}
		defined[s.id] = true
	}
	if def == 0 {
		if len(sets) != 0 {
			valid = false
		}
	} else if !defined[def] {
		valid = false
	}
	vpAssert("accepted-iff-wellformed", (err == nil) == valid)
	if err == nil && valid {
		vpAssert("base-dir-as-configured", d.BaseDir == basedir)
		vpAssert("default-as-configured", d.Default == uint(def))
		vpAssert("exactly-the-configured-sets", len(d.Params) == len(defined))
		for _, s := range sets {
			h := d.Params[uint(s.id)]
			vpAssert("set-present", h != nil)
		}
		// duplicate ids: the later definition wins
		for id := range defined {
			var last vpSetSpec
			for _, s := range sets {
				if s.id == id {
					last = s
				}
			}
			want := "argon2id"
			if last.scrypt {
				want = "hmac_sha256_scrypt"
			}
			vpAssert("algorithm-as-configured", d.Params[uint(id)].GetFormatID() == want)
		}
	}
	vpCover("end")
}

// VP_C18_AcceptedSetsNeverPanic: every parameter set the loader accepts hashes and verifies, or
// fails with an error - it never crashes.
func VP_C18_AcceptedSetsNeverPanic() {
	root := vpTempDir()
	base := filepath.Join(root, "store")
	os.Mkdir(base, 0700)
	cfg := filepath.Join(root, "c.yaml")
	var set map[string]interface{}
	if vpChoose("algo", 2) == 0 {
		// values at and beyond the width of the configuration field (threads is 8 bits wide in the
		// schema): the loader either refuses them or the accepted set must work
		edge := []int{0, 1, 255, 256, 512}
		set = map[string]interface{}{"id": 1, "argon2id": map[string]interface{}{
			"time": []int{0, 1, 2}[vpChoose("time", 3)], "memory": []int{0, 8}[vpChoose("memory", 2)],
			"threads": edge[vpChoose("threads", 5)], "length": []int{0, 1, 32}[vpChoose("length", 3)]}}
	} else {
		set = map[string]interface{}{"id": 1, "scryptauth": map[string]interface{}{
			"hmackey": vpHmacKeyB64, "cost": []int{0, 1, 2}[vpChoose("cost", 3)],
			"r": []int{-1, 0, 1, 8}[vpChoose("r", 4)], "p": []int{-1, 0, 1}[vpChoose("p", 3)]}}
	}
	vpYAMLFile(cfg, map[string]interface{}{"basedir": base, "default": 1, "params": []interface{}{set}})
	d, err := lib.NewDirFromConfig(cfg)
	if err != nil {
		vpCover("refused")
		return
	}
	panicked := false
	var addErr error
	var ok bool
	func() {
		defer func() {
			if recover() != nil {
				panicked = true
			}
		}()
		pw := vpStr("pw", 2)
		addErr = d.AddUser("u", pw, true)
		if addErr == nil {
			ok, _, _, _, _ = d.Authenticate("u", pw)
		}
	}()
	vpAssert("accepted-parameter-set-never-panics", !panicked)
	vpAssert("accepted-set-hashes-and-verifies-or-errors", vpImp(!panicked && addErr == nil, ok))
	vpCover("end")
}

// VP_C18_ReloadAllOrNothing: on reload the agent switches to the new configuration iff it loads
// and its directory passes the check; otherwise the complete previous configuration stays.
func VP_C18_ReloadAllOrNothing() {
	root := vpTempDir()
	baseA := filepath.Join(root, "a")
	baseB := filepath.Join(root, "b")
	os.Mkdir(baseA, 0700)
	os.Mkdir(baseB, 0700)
	cfg := filepath.Join(root, "c.yaml")
	vpYAMLFile(cfg, vpConfigDoc(baseA, 1))
	vpSeedUser(cfg, "root", "rootpw", true)
	s, err := NewStore(cfg, "", "", "", "")
	if err != nil {
		panic("setup: " + err.Error())
	}
	// new configuration: base dir b, default 2; validity of document and directory vary
	newdoc := vpConfigDoc(baseB, 2)
	docOK := true
	switch vpChoose("newdoc", 4) {
	case 1:
		newdoc["default"] = 9
		docOK = false
	case 2:
		newdoc["surprise"] = 1
		docOK = false
	case 3:
		newdoc = nil
		docOK = false
	}
	dirOK := false
	switch vpChoose("newdir", 3) {
	case 0: // empty directory: check fails (no admin)
	case 1:
		if docOK {
			vpYAMLFile(cfg, newdoc)
			vpSeedUser(cfg, "boss", "bosspw", true)
			dirOK = true
		}
	case 2:
		os.WriteFile(filepath.Join(baseB, "junk.txt"), []byte("x"), 0600)
	}
	if newdoc == nil {
		vpYAMLFile(cfg, nil)
	} else {
		vpYAMLFile(cfg, newdoc)
	}
	st := s.GetInterface()
	st.Check() // the dispatcher is up (its signal handler is registered) once it has answered a request
	vpSignalHUP()
	// the first request after the signal may be served before or after the reload (both are
	// "answered normally"); once it has been answered the reload has run
	st.Check()
	okOld, _, _, _ := st.Authenticate("root", "rootpw")
	okNew, _, _, _ := st.Authenticate("boss", "bosspw")
	switched := docOK && dirOK
	if switched {
		vpAssert("switched-to-the-complete-new-configuration", s.dir.BaseDir == baseB && s.dir.Default == 2 && len(s.dir.Params) == 2)
		vpAssert("new-store-serves-requests", okNew && !okOld)
	} else {
		vpAssert("previous-configuration-kept-entirely", s.dir.BaseDir == baseA && s.dir.Default == 1 && len(s.dir.Params) == 2)
		vpAssert("old-store-keeps-serving", okOld && !okNew)
	}
	// reloading again (and again) is just as harmless: the agent keeps answering
	for i := vpChoose("further-reloads", 3); i > 0; i-- {
		vpSignalHUP()
		for k := 0; k < 2; k++ { // the first request may be served before the reload, the second not
			done := make(chan bool, 1)
			go func() { st.Check(); done <- true }()
			vpAssert("agent-answers-after-repeated-reloads", vpAwait(done))
		}
	}
	vpCover("end")
}
