package main

// Command-line frontend: C04 (authenticate exit codes) and C16 (commands run the consistency
// check first unless it is disabled).

import (
	"os"
	"path/filepath"

	"github.com/urfave/cli"
)

func vpExit(err error) (int, bool) {
	if ee, ok := err.(*cli.ExitError); ok {
		return ee.ExitCode(), true
	}
	return -1, false
}

func vpGlobals(cfg string, doCheck bool) map[string]string {
	dc := "false"
	if doCheck {
		dc = "true"
	}
	return map[string]string{"store": cfg, "do-check": dc, "do-upgrades": "", "policy-type": "", "policy-condition": "", "hooks-dir": ""}
}

// VP_C04_CliAuthenticate: exit status 0 iff the store accepts exactly the given name and
// password, 1 on a wrong password, 3 on an internal error.
func VP_C04_CliAuthenticate() {
	_, cfg := vpAgentDir(1)
	vpSeedUser(cfg, "root", "rootpw", true)
	vpSeedUser(cfg, "u", "secret", false)
	name := []string{"u", "root", "nobody", "U"}[vpChoose("name", 4)]
	pw := vpStr("password", vpInt("passwordlen", 5, 7)) // arbitrary bytes: "secret", "Secret", "secret " ... are instances
	c := vpCliContext(vpGlobals(cfg, vpChoose("do-check", 2) == 1), map[string]string{}, []string{name, pw})
	code, ok := vpExit(cmdAuthenticate(c))
	vpAssert("exits-with-an-exit-error", ok)
	right := (name == "u" && pw == "secret") || (name == "root" && pw == "rootpw")
	vpAssert("exit-0-iff-store-accepts", (code == 0) == right)
	// the store reports a wrong password as an error (ok=false, err!=nil): both are denials
	vpAssert("denial-exit-status-is-1-or-3", vpImp(!right, code == 1 || code == 3))
	vpCover("end")
}

// VP_C16_CliChecksFirst: every command except init/check refuses (exit status 3) to touch a
// directory that fails the consistency check, unless checking is disabled.
func VP_C16_CliChecksFirst() {
	base, cfg := vpAgentDir(1)
	valid := vpChoose("valid-store", 2) == 1
	if valid {
		vpSeedUser(cfg, "root", "rootpw", true)
	} else {
		// three ways to fail the check; in (1) and (2) the commands would work if the check were skipped
		switch vpChoose("invalid-shape", 3) {
		case 0:
			os.WriteFile(filepath.Join(base, "stray.txt"), []byte("x"), 0600)
		case 1: // no administrator
			vpSeedUser(cfg, "root", "rootpw", false)
		case 2: // both extensions for one name
			vpSeedUser(cfg, "root", "rootpw", true)
			b, _ := os.ReadFile(filepath.Join(base, "root.admin"))
			os.WriteFile(filepath.Join(base, "root.user"), b, 0600)
		}
	}
	doCheck := vpChoose("do-check", 2) == 1
	before := vpFsSnapshot(base)
	var err error
	cmd := vpChoose("command", 9)
	g := vpGlobals(cfg, doCheck)
	switch cmd {
	case 0:
		err = cmdAdd(vpCliContext(g, map[string]string{}, []string{"w", "wpw"}))
	case 1:
		err = cmdRemove(vpCliContext(g, map[string]string{}, []string{"root"}))
	case 2:
		err = cmdUpdate(vpCliContext(g, map[string]string{}, []string{"root", "newpw"}))
	case 3:
		err = cmdSetAdmin(vpCliContext(g, map[string]string{}, []string{"root", "false"}))
	case 4:
		err = cmdList(vpCliContext(g, map[string]string{"full": "false"}, []string{}))
	case 5:
		err = cmdAuthenticate(vpCliContext(g, map[string]string{}, []string{"root", "rootpw"}))
	case 6: // run / runsa: the listener configuration is read only after the check (it does not exist)
		err = cmdRun(vpCliContext(g, map[string]string{"listener": "/nonexistent/listener.yml"}, []string{}))
	case 8:
		err = cmdList(vpCliContext(g, map[string]string{"full": "true"}, []string{}))
	case 7:
		err = cmdRunSa(vpCliContext(g, map[string]string{"listener": "/nonexistent/listener.yml"}, []string{}))
	}
	code, ok := vpExit(err)
	vpAssert("exits-with-an-exit-error", ok)
	if !valid && doCheck {
		vpAssert("refuses-invalid-directory-with-status-3", code == 3)
		vpAssert("invalid-directory-left-untouched", vpFsSame(before, vpFsSnapshot(base)))
	}
	if valid && code == 0 {
		vpCover("valid-directory-is-served") // not demanded by the property: a witness that the refusal is not vacuous
	}
	vpCover("end")
}
