package main

// Helpers that build a real agent (NewStore with its dispatcher and hooks goroutines) on a
// store directory described by a YAML configuration document.

import (
	"os"
	"path/filepath"

	lib "github.com/whawty/auth/store"
)

const vpHmacKeyB64 = "iN3FKLQR7VCX0eQ45nBYMiPRxN3hiqfmexEfNFbM+L4="

// vpArgonLen is the digest length of parameter set 1 (units may shorten it).
var vpArgonLen = 32

// vpConfigDoc: parameter set 1 = argon2id, 2 = hmac_sha256_scrypt (cheap parameters).
func vpConfigDoc(base string, def int) map[string]interface{} {
	return map[string]interface{}{
		"basedir": base,
		"default": def,
		"params": []interface{}{
			map[string]interface{}{"id": 1, "argon2id": map[string]interface{}{"time": 1, "memory": 8, "threads": 1, "length": vpArgonLen}},
			map[string]interface{}{"id": 2, "scryptauth": map[string]interface{}{"hmackey": vpHmacKeyB64, "cost": 2}},
		},
	}
}

// vpAgentDir creates <tmp>/store and <tmp>/store.yaml; returns base dir and config path.
func vpAgentDir(def int) (base, cfg string) {
	root := vpTempDir()
	base = filepath.Join(root, "store")
	if os.Mkdir(base, 0700) != nil {
		panic("setup")
	}
	cfg = filepath.Join(root, "store.yaml")
	vpYAMLFile(cfg, vpConfigDoc(base, def))
	return
}

// vpSeedUser writes a user through the library with the given default set.
func vpSeedUser(cfg string, name, pw string, admin bool) {
	d, err := lib.NewDirFromConfig(cfg)
	if err != nil {
		panic("setup: " + err.Error())
	}
	if d.AddUser(name, pw, admin) != nil {
		panic("setup")
	}
}

type vpPolicy struct {
	ok  bool
	err error
}

func (p vpPolicy) Check(password, username string) (bool, error) { return p.ok, p.err }
