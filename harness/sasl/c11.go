package sasl

// C11 (saslauthd frontend): two connections served at the same time get their own answers,
// whatever the interleaving of their handlers - including a handler that is descheduled inside
// its write to a slow peer.

import (
	"bytes"
	"io"
)

// vpSlowConn: the peer is slow - the handler is descheduled inside Write, and the bytes are
// taken over only when it runs again (as a blocking write(2) does).
type vpSlowConn struct{ vpConn }

func (c *vpSlowConn) Write(p []byte) (int, error) {
	vpYield()
	return c.vpConn.Write(p)
}

func VP_C11_SaslConnectionsGetTheirOwnAnswers() {
	s := &Server{cb: func(login, password, service, realm string) (bool, string, error) {
		if login == password {
			return true, "welcome " + login, nil
		}
		return false, "go away " + login, nil
	}}
	reqs := [2][2]string{{"a", "a"}, {"b", "x"}} // the first is approved, the second is not
	var conns [2]*vpSlowConn
	for i := range conns {
		conns[i] = &vpSlowConn{vpConn{in: &vpFragReader{data: refEncode(reqs[i][0], reqs[i][1], "", ""), maxReads: 1, endErr: io.EOF}}}
	}
	vpSchedExplore(true)
	done := make(chan bool, 2)
	for i := range conns {
		c := conns[i]
		go func() { s.handleConnection(c); done <- true }()
	}
	a := vpAwait(done)
	b := vpAwait(done)
	vpSchedExplore(false)
	vpAssert("both-handlers-finish", a && b)
	for i := range conns {
		var r Response
		err := r.Decode(bytes.NewReader(conns[i].written))
		vpAssert("sched: each-connection-gets-a-decodable-answer", err == nil)
		if err == nil {
			want := reqs[i][0] == reqs[i][1]
			vpAssert("sched: each-connection-gets-its-own-verdict", r.Result == want)
			vpAssert("sched: each-connection-gets-its-own-message", vpImp(want, r.Message == "welcome "+reqs[i][0]) && vpImp(!want, r.Message == "go away "+reqs[i][0]))
		}
	}
	vpCover("end")
}
