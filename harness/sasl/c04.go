package sasl

// C04 (transport part) — SASL fields up to the documented 256-byte limit reach the callback
// byte-identical, whatever the mix of field lengths.

import "io"

func VP_C04_SaslTransportLongFields() {
	var l [4]int
	l[0] = []int{1, 3, 256}[vpChoose("loginlen", 3)]
	l[1] = []int{1, 125, 250, 255, 256}[vpChoose("pwlen", 5)]
	l[2] = []int{0, 4, 256}[vpChoose("servicelen", 3)]
	l[3] = []int{0, 8, 256}[vpChoose("realmlen", 3)]
	r := vpReq(l)
	stream := refEncode(r.Login, r.Password, r.Service, r.Realm)
	conn := &vpConn{in: &vpFragReader{data: stream, maxReads: 1 + vpChoose("reads", 2), maxZeros: 0, endErr: io.EOF}}
	rec := &vpCBRec{}
	s := &Server{cb: func(login, password, service, realm string) (bool, string, error) {
		rec.calls++
		rec.login, rec.password, rec.service, rec.rlm = login, password, service, realm
		return true, "", nil
	}}
	s.handleConnection(conn)
	vpAssert("callback-invoked-once", rec.calls == 1)
	vpAssert("fields-reach-the-callback-byte-identical", vpAnd(vpAnd(rec.login == r.Login, rec.password == r.Password), vpAnd(rec.service == r.Service, rec.rlm == r.Realm)))
	var resp Response
	vpAssert("positive-reply", resp.Unmarshal(conn.written) == nil && resp.Result)
	vpCover("end")
}
