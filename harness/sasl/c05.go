package sasl

// C05 — the saslauthd server fails closed on every byte stream.

import (
	"bytes"
	"io"
	"net"
	"os"
	"time"
)

type vpAddr struct{}

func (vpAddr) Network() string { return "unix" }
func (vpAddr) String() string  { return "vp" }

// vpConn is a scripted net.Conn: arbitrary input stream with arbitrary fragmentation,
// records writes and closes.
type vpConn struct {
	in             *vpFragReader
	written        []byte
	writes         int
	closes         int
	writeAfterClos bool
	readAfterClose bool
	// deadlines as net.Conn documents them: an absolute time after which reads / writes fail
	hasRdl, hasWdl bool
	rdl, wdl       time.Time
}

func (c *vpConn) Read(p []byte) (int, error) {
	if c.closes > 0 {
		c.readAfterClose = true
	}
	if c.hasRdl && time.Now().Sub(c.rdl) > 0 {
		return 0, os.ErrDeadlineExceeded
	}
	return c.in.Read(p)
}
func (c *vpConn) Write(p []byte) (int, error) {
	if c.closes > 0 {
		c.writeAfterClos = true
	}
	if c.hasWdl && time.Now().Sub(c.wdl) > 0 {
		return 0, os.ErrDeadlineExceeded
	}
	c.writes++
	c.written = append(c.written, p...)
	return len(p), nil
}
func (c *vpConn) Close() error         { c.closes++; return nil }
func (c *vpConn) LocalAddr() net.Addr  { return vpAddr{} }
func (c *vpConn) RemoteAddr() net.Addr { return vpAddr{} }
func (c *vpConn) SetDeadline(t time.Time) error {
	c.SetReadDeadline(t)
	return c.SetWriteDeadline(t)
}
func (c *vpConn) SetReadDeadline(t time.Time) error {
	c.hasRdl, c.rdl = !t.IsZero(), t
	return nil
}
func (c *vpConn) SetWriteDeadline(t time.Time) error {
	c.hasWdl, c.wdl = !t.IsZero(), t
	return nil
}

type vpCBErr struct{ msg string }

func (e vpCBErr) Error() string { return e.msg }

type vpCBRec struct {
	calls                         int
	login, password, service, rlm string
}

var vpMsgLens = []int{0, 1, 2, 252, 253, 254, 255, 65532, 65533}

func vpMsgLen(label string) int {
	return vpMsgLens[vpChoose(label, len(vpMsgLens))]
}

// vpLongStr: arbitrary content for short strings; long ones have 4 arbitrary leading bytes
// and a constant filler (only their length matters to the code under test).
func vpLongStr(label string, n int) string {
	if n <= 8 {
		return vpStr(label, n)
	}
	b := make([]byte, n)
	copy(b, vpStr(label, 4))
	for i := 4; i < n; i++ {
		b[i] = 'm'
	}
	if vpChoose(label+"-filler", 2) == 1 { // two-byte UTF-8 sequences instead of ASCII
		for i := 4; i+1 < n; i += 2 {
			b[i], b[i+1] = 0xC3, 0xA4
		}
	}
	return string(b)
}

// pamAccepts is the PAM module's rule (pam_whawty.c): read the 2-byte length, then
// min(len,256) bytes; success iff they begin with "OK". Requires the bytes to be there.
func pamAccepts(reply []byte) (ok bool, wellformed bool) {
	if len(reply) < 2 {
		return false, false
	}
	n := int(reply[0])<<8 | int(reply[1])
	if n > 256 {
		n = 256
	}
	if len(reply)-2 < n {
		return false, false
	}
	return n >= 2 && reply[2] == 'O' && reply[3] == 'K', true
}

func vpC05Stream() ([]byte, bool) {
	// either an arbitrary short stream or a well-formed request followed by trailing bytes
	if vpChoose("streamkind", 2) == 0 {
		n := vpInt("streamlen", 0, 6+2*vpTier())
		return vpBytes("stream", n), false
	}
	var l [4]int
	l[0] = vpChoose("loginlen", 3)
	l[1] = vpChoose("pwlen", 3)
	l[2] = vpChoose("servicelen", 2)
	l[3] = vpChoose("realmlen", 2)
	r := vpReq(l)
	s := refEncode(r.Login, r.Password, r.Service, r.Realm)
	s = append(s, vpBytes("trailing", vpChoose("trailinglen", 2))...)
	return s, true
}

// vpC05Run drives one connection and checks every obligation of the property.
func vpC05Run(stream []byte, maxReads int, endErr error, cbOK bool, cbMsg string, cbErr error) {
	vpC05RunOn(&vpConn{in: &vpFragReader{data: stream, maxReads: maxReads, maxZeros: 0, endErr: endErr}}, stream, endErr, cbOK, cbMsg, cbErr)
}

// vpCBSeconds: how long the authentication callback takes (a slow KDF, a loaded store): 0 unless
// a unit sets it
var vpCBSeconds int

func vpC05RunOn(conn *vpConn, stream []byte, endErr error, cbOK bool, cbMsg string, cbErr error) {
	rec := &vpCBRec{}
	s := &Server{cb: func(login, password, service, realm string) (bool, string, error) {
		rec.calls++
		rec.login, rec.password, rec.service, rec.rlm = login, password, service, realm
		if vpCBSeconds > 0 {
			vpSleep(vpCBSeconds)
		}
		return cbOK, cbMsg, cbErr
	}}
	s.handleConnection(conn)

	parts, _, ok := refParse(stream, 4)
	refOK := ok && len(parts[0]) > 0 && len(parts[1]) > 0
	vpAssert("callback-at-most-once", rec.calls <= 1)
	vpAssert("callback-only-if-request-decodes", vpImp(rec.calls == 1, refOK))
	if endErr == io.EOF {
		// a cleanly terminated, complete request is served (a transport error may refuse it)
		vpAssert("complete-request-reaches-callback", vpImp(refOK, rec.calls == 1))
	}
	if rec.calls == 1 && refOK {
		vpAssert("callback-gets-exactly-the-decoded-fields", vpAnd(vpAnd(rec.login == parts[0], rec.password == parts[1]), vpAnd(rec.service == parts[2], rec.rlm == parts[3])))
	}
	vpAssert("closed-exactly-once", conn.closes == 1)
	vpAssert("no-io-after-close", !conn.writeAfterClos && !conn.readAfterClose)
	verdict := rec.calls == 1 && cbOK && cbErr == nil
	// exactly one length-prefixed reply
	rp, consumed, rok := refParseAny(conn.written)
	vpAssert("exactly-one-length-prefixed-reply", rok && consumed == len(conn.written))
	if rok {
		positive := len(rp) >= 2 && rp[0] == 'O' && rp[1] == 'K'
		vpAssert("positive-reply-only-if-decoded-and-approved", vpImp(positive, verdict && refOK))
		vpAssert("approved-request-gets-positive-reply", vpImp(verdict, positive))
	}
	// decodable by the bundled Go client
	var resp Response
	derr := resp.Decode(bytes.NewReader(conn.written))
	vpAssert("reply-decodable-by-go-client", derr == nil)
	if derr == nil {
		vpAssert("go-client-sees-callback-verdict", resp.Result == verdict)
	}
	// and by the PAM module's reader
	pamOK, pamWF := pamAccepts(conn.written)
	vpAssert("reply-readable-by-pam-module", pamWF)
	if pamWF {
		vpAssert("pam-module-sees-callback-verdict", pamOK == verdict)
	}
}

// Unit A: every byte stream / fragmentation / ending; callback outcome arbitrary but short.
func VP_C05_HandleConnection() {
	stream, _ := vpC05Stream()
	var endErr error = io.EOF
	if vpChoose("endkind", 2) == 1 {
		endErr = vpErrRead{}
	}
	cbOK := vpBool("cb-ok")
	cbMsg := ""
	var cbErr error
	switch vpChoose("cb-kind", 3) {
	case 0:
		cbMsg = vpStr("cb-msg", 2)
	case 1:
		cbErr = vpCBErr{vpStr("cb-errmsg", 1)}
	}
	vpC05Run(stream, 2, endErr, cbOK, cbMsg, cbErr)
	vpCover("end")
}

// Unit B: every callback outcome (message or error text at the part-size boundaries) on a
// complete request and on a malformed one.
func VP_C05_ReplyForEveryCallbackResult() {
	var stream []byte
	if vpChoose("streamkind", 2) == 0 {
		var l [4]int
		l[0], l[1], l[2], l[3] = 2, 1, 1, 0
		r := vpReq(l)
		stream = refEncode(r.Login, r.Password, r.Service, r.Realm)
	} else {
		stream = vpBytes("stream", 3)
	}
	cbOK := vpBool("cb-ok")
	cbMsg := ""
	var cbErr error
	if vpChoose("cb-kind", 2) == 0 {
		cbMsg = vpLongStr("cb-msg", vpMsgLen("cb-msglen"))
	} else {
		cbErr = vpCBErr{vpLongStr("cb-errmsg", vpMsgLen("cb-errlen"))}
	}
	vpC05Run(stream, 1, io.EOF, cbOK, cbMsg, cbErr)
	vpCover("end")
}

// Unit B2: the callback takes its time (0..8 s): whatever time limits the server puts on the
// connection, a complete request still gets exactly one reply carrying the callback's verdict.
func VP_C05_SlowCallback() {
	var l [4]int
	l[0], l[1], l[2], l[3] = 2, 1, 1, 0
	r := vpReq(l)
	stream := refEncode(r.Login, r.Password, r.Service, r.Realm)
	vpCBSeconds = []int{0, 1, 4, 8}[vpChoose("cb-seconds", 4)]
	cbOK := vpBool("cb-ok")
	vpC05Run(stream, 1, io.EOF, cbOK, vpStr("cb-msg", 1), nil)
	vpCBSeconds = 0
	vpCover("end")
}

// vpFill: n bytes, the first and the last arbitrary, a field-specific constant in between.
func vpFill(label string, n int, fill byte) string {
	if n <= 2 {
		return vpStr(label, n)
	}
	b := make([]byte, n)
	e := vpStr(label, 2)
	for i := range b {
		b[i] = fill
	}
	b[0], b[n-1] = e[0], e[1]
	return string(b)
}

// Unit C: requests with long fields (up to the 256-byte limit) delivered whole, field by
// field (as the bundled client and the PAM module write them), in small pieces or cut at
// an arbitrary place: the callback still gets exactly the four fields.
func VP_C05_LongRequestFragmented() {
	prof := [][4]int{{60, 60, 3, 0}, {200, 1, 0, 0}, {1, 200, 3, 5}, {125, 125, 0, 0}, {60, 200, 3, 5}, {256, 256, 256, 256}}[vpChoose("lengths", 6)]
	login := vpFill("login", prof[0], 'l')
	pw := vpFill("password", prof[1], 'p')
	svc := vpFill("service", prof[2], 's')
	realm := vpFill("realm", prof[3], 'r')
	stream := refEncode(login, pw, svc, realm)
	fr := &vpFragReader{data: stream, maxReads: 1, endErr: io.EOF}
	switch vpChoose("delivery", 4) {
	case 0: // whole
	case 1: // header and body of every field in separate reads
		off := 0
		for _, f := range []string{login, pw, svc, realm} {
			fr.cuts = append(fr.cuts, off+2, off+2+len(f))
			off += 2 + len(f)
		}
	case 2: // pieces of 7 bytes
		for c := 7; c < len(stream); c += 7 {
			fr.cuts = append(fr.cuts, c)
		}
	case 3: // one arbitrary cut
		fr.maxReads = 2
	}
	vpC05RunOn(&vpConn{in: fr}, stream, io.EOF, true, "", nil)
	vpCover("end")
}

// refParseAny parses one length-prefixed part of any length (up to 65535).
func refParseAny(s []byte) (part []byte, consumed int, ok bool) {
	if len(s) < 2 {
		return nil, 0, false
	}
	n := int(s[0])<<8 | int(s[1])
	if len(s)-2 < n {
		return nil, 0, false
	}
	return s[2 : 2+n], 2 + n, true
}

// Non-interference: handleConnection touches only its own connection; two connections
// handled by the same server (any order of the two handlers' completion is irrelevant since
// they share no mutable state) get their own answers.
func VP_C05_TwoConnectionsOwnAnswers() {
	var l [4]int
	l[0], l[1] = 1, 1
	r1 := vpReq(l)
	r2 := vpReq(l)
	s := &Server{cb: func(login, password, service, realm string) (bool, string, error) {
		// verdict depends on the request: approve iff login byte == password byte
		return login == password, "", nil
	}}
	c1 := &vpConn{in: &vpFragReader{data: refEncode(r1.Login, r1.Password, "", ""), maxReads: 1, endErr: io.EOF}}
	c2 := &vpConn{in: &vpFragReader{data: refEncode(r2.Login, r2.Password, "", ""), maxReads: 1, endErr: io.EOF}}
	before := *s
	s.handleConnection(c1)
	s.handleConnection(c2)
	vpAssert("server-state-unchanged", s.sockPath == before.sockPath && s.ln == before.ln)
	var a1, a2 Response
	e1 := a1.Decode(bytes.NewReader(c1.written))
	e2 := a2.Decode(bytes.NewReader(c2.written))
	vpAssert("both-answered", e1 == nil && e2 == nil)
	if e1 == nil && e2 == nil {
		vpAssert("conn1-own-answer", a1.Result == (r1.Login == r1.Password))
		vpAssert("conn2-own-answer", a2.Result == (r2.Login == r2.Password))
	}
	vpCover("end")
}

// ---- accept loop ----

type vpTempErr struct{}

func (vpTempErr) Error() string   { return "too many open files" }
func (vpTempErr) Temporary() bool { return true }
func (vpTempErr) Timeout() bool   { return false }

type vpFatalErr struct{}

func (vpFatalErr) Error() string { return "listener closed" }

// vpListener hands out scripted connections; a temporary accept error comes first or in between.
type vpListener struct {
	script []interface{} // net.Conn or error
	pos    int
}

func (l *vpListener) Accept() (net.Conn, error) {
	if l.pos >= len(l.script) {
		return nil, vpFatalErr{}
	}
	x := l.script[l.pos]
	l.pos++
	if c, ok := x.(net.Conn); ok {
		return c, nil
	}
	return nil, x.(error)
}
func (l *vpListener) Close() error   { return nil }
func (l *vpListener) Addr() net.Addr { return vpAddr{} }

type vpNotifyConn struct {
	*vpConn
	closed chan bool
}

func (c *vpNotifyConn) Close() error {
	err := c.vpConn.Close()
	c.closed <- true
	return err
}

// VP_C05_AcceptLoop: the accept loop serves every accepted connection with its own answer, each
// exactly once, and survives temporary accept errors (it keeps accepting).
func VP_C05_AcceptLoop() {
	var l [4]int
	l[0], l[1] = 1, 1
	r1 := vpReq(l)
	r2 := vpReq(l)
	closed := make(chan bool, 8)
	mk := func(r Request) *vpNotifyConn {
		return &vpNotifyConn{&vpConn{in: &vpFragReader{data: refEncode(r.Login, r.Password, "", ""), maxReads: 1, endErr: io.EOF}}, closed}
	}
	c1, c2 := mk(r1), mk(r2)
	tmp := &net.OpError{Op: "accept", Net: "unix", Err: vpTempErr{}}
	var script []interface{}
	switch vpChoose("temporary-error", 3) {
	case 0:
		script = []interface{}{c1, c2}
	case 1:
		script = []interface{}{tmp, c1, c2}
	case 2:
		script = []interface{}{c1, tmp, c2}
	}
	s := &Server{ln: &vpListener{script: script}, cb: func(login, password, service, realm string) (bool, string, error) {
		return login == password, "", nil
	}}
	err := s.Run()
	vpAssert("run-ends-only-on-the-fatal-error", err != nil) // the loop served both connections first (below): it did not stop at the temporary error
	a := vpAwait(closed)
	b := vpAwait(closed)
	vpAssert("every-accepted-connection-is-closed", a && b)
	vpAssert("each-connection-closed-exactly-once", c1.closes == 1 && c2.closes == 1)
	var a1, a2 Response
	e1 := a1.Decode(bytes.NewReader(c1.written))
	e2 := a2.Decode(bytes.NewReader(c2.written))
	vpAssert("each-connection-gets-exactly-one-reply", e1 == nil && e2 == nil)
	if e1 == nil && e2 == nil {
		vpAssert("each-connection-gets-its-own-answer", a1.Result == (r1.Login == r1.Password) && a2.Result == (r2.Login == r2.Password))
	}
	vpCover("end")
}

// VP_C10_SaslAcceptLoopKeepsAccepting: the saslauthd frontend keeps accepting after transient
// accept errors (same scenario as VP_C05_AcceptLoop, claimed under C10's "keeps accepting").
func VP_C10_SaslAcceptLoopKeepsAccepting() { VP_C05_AcceptLoop() }
