package sasl

// C13 — saslauthd wire codec: exact format, lossless round trip, fragment independence.
// Harness units run symbolically under gosym and natively (replay) unchanged.

import (
	"bytes"
	"io"
)

type vpBuf struct{ b []byte }

func (w *vpBuf) Write(p []byte) (int, error) { w.b = append(w.b, p...); return len(p), nil }

// refEncode is the reference encoder of the wire format (F.6).
func refEncode(parts ...string) []byte {
	var out []byte
	for _, p := range parts {
		out = append(out, byte(len(p)>>8), byte(len(p)))
		out = append(out, p...)
	}
	return out
}

var vpEdgeLens = []int{0, 1, 2, 255, 256, 257}

// vpLenProfile: one field takes an edge length, the others are 0 or 1 bytes.
func vpLenProfile() [4]int {
	var l [4]int
	big := vpChoose("bigfield", 4)
	for i := 0; i < 4; i++ {
		if i == big {
			l[i] = vpEdgeLens[vpChoose("biglen", len(vpEdgeLens))]
		} else {
			l[i] = vpChoose("smalllen", 2)
		}
	}
	return l
}

func vpReq(l [4]int) Request {
	return Request{vpStr("login", l[0]), vpStr("password", l[1]), vpStr("service", l[2]), vpStr("realm", l[3])}
}

// Unit 1: exact format of the request encoder, Encode and Marshal, refusal iff a field is over 256.
func VP_C13_RequestEncodeFormat() {
	l := vpLenProfile()
	r := vpReq(l)
	over := l[0] > 256 || l[1] > 256 || l[2] > 256 || l[3] > 256
	var w vpBuf
	err := r.Encode(&w)
	vpAssert("encode-refuses-iff-overlong", (err != nil) == over)
	data, merr := r.Marshal()
	vpAssert("marshal-refuses-iff-overlong", (merr != nil) == over)
	if err == nil {
		ref := refEncode(r.Login, r.Password, r.Service, r.Realm)
		vpAssert("encode-wire-format", bytes.Equal(w.b, ref))
		if merr == nil {
			vpAssert("marshal-wire-format", bytes.Equal(data, ref))
		}
	} else {
		// whatever a refusing encoder has already written must not pass for a request
		_, _, wok := refParse(w.b, 4)
		vpAssert("refused-writes-nothing-decodable", !wok)
	}
	vpCover("end")
}

// Unit 2: Decode(Encode(m)) == m; empty login/password refused by the decoder.
func VP_C13_RequestRoundTrip() {
	l := vpLenProfile()
	vpAssume(l[0] <= 256 && l[1] <= 256 && l[2] <= 256 && l[3] <= 256)
	r := vpReq(l)
	var w vpBuf
	err := r.Encode(&w)
	vpAssert("encodes", err == nil)
	var d Request
	derr := d.Decode(bytes.NewReader(w.b))
	empty := l[0] == 0 || l[1] == 0
	vpAssert("decode-refuses-iff-empty-login-or-password", (derr != nil) == empty)
	if derr == nil {
		vpAssert("roundtrip-identical", vpAnd(vpAnd(d.Login == r.Login, d.Password == r.Password), vpAnd(d.Service == r.Service, d.Realm == r.Realm)))
	}
	var u Request
	uerr := u.Unmarshal(w.b)
	vpAssert("unmarshal-agrees", (uerr != nil) == (derr != nil) && vpImp(uerr == nil, u == d))
	vpCover("end")
}

// refParse parses four parts; returns ok and the number of bytes consumed.
func refParse(s []byte, nparts int) (parts []string, consumed int, ok bool) {
	pos := 0
	for i := 0; i < nparts; i++ {
		if len(s)-pos < 2 {
			return nil, 0, false
		}
		n := int(s[pos])<<8 | int(s[pos+1])
		if n > 256 {
			return nil, 0, false
		}
		if len(s)-pos-2 < n {
			return nil, 0, false
		}
		parts = append(parts, string(s[pos+2:pos+2+n]))
		pos += 2 + n
	}
	return parts, pos, true
}

func vpStreamLen() int {
	if vpTier() == 1 {
		return vpInt("streamlen", 0, 12)
	}
	return vpInt("streamlen", 0, 10)
}

// Unit 3: arbitrary byte strings: decoder agrees with the reference parser; a successfully
// decoded request re-encodes to exactly the consumed prefix.
func VP_C13_RequestReencodeConsumed() {
	n := vpStreamLen()
	s := vpBytes("stream", n)
	var r Request
	err := r.Unmarshal(s)
	parts, consumed, ok := refParse(s, 4)
	refOK := ok && len(parts[0]) > 0 && len(parts[1]) > 0
	vpAssert("accepts-iff-reference-accepts", (err == nil) == refOK)
	if err == nil && refOK {
		vpAssert("fields-equal-reference", vpAnd(vpAnd(r.Login == parts[0], r.Password == parts[1]), vpAnd(r.Service == parts[2], r.Realm == parts[3])))
		m, merr := r.Marshal()
		vpAssert("remarshal-ok", merr == nil)
		vpAssert("reencode-equals-consumed-prefix", bytes.Equal(m, s[:consumed]))
	}
	vpCover("end")
}

// vpFragReader delivers data in an arbitrary fragmentation: every cut position, zero-length
// reads (at most 2 in a row), final bytes with or without io.EOF / a read error.
type vpFragReader struct {
	data     []byte
	pos      int
	reads    int
	maxReads int
	zeros    int
	maxZeros int
	endErr   error
	done     bool
	cuts     []int // if set: fixed fragment boundaries (offsets into data) instead of arbitrary ones
}

func (f *vpFragReader) Read(p []byte) (int, error) {
	if f.done {
		return 0, f.endErr
	}
	rem := len(f.data) - f.pos
	if rem > len(p) {
		rem = len(p)
	}
	var n int
	if f.cuts != nil {
		end := len(f.data)
		for _, c := range f.cuts {
			if c > f.pos && c < end {
				end = c
			}
		}
		n = end - f.pos
		if n > rem {
			n = rem
		}
	} else if f.reads >= f.maxReads-1 {
		n = rem
	} else if f.zeros >= f.maxZeros {
		if rem == 0 {
			n = 0
		} else {
			n = 1 + vpChoose("fraglen", rem)
		}
	} else {
		n = vpChoose("fraglen0", rem+1)
	}
	if n == 0 && f.pos < len(f.data) && len(p) > 0 {
		f.zeros++
	} else {
		f.zeros = 0
	}
	if n > 0 {
		f.reads++
	}
	copy(p, f.data[f.pos:f.pos+n])
	f.pos += n
	if f.pos == len(f.data) {
		// end of data: error together with the last bytes, or on the next call
		if vpChoose("eof-with-data", 2) == 1 {
			f.done = true
			return n, f.endErr
		}
		if n == 0 {
			f.done = true
			return 0, f.endErr
		}
	}
	return n, nil
}

type vpErrRead struct{}

func (vpErrRead) Error() string { return "vp read error" }

func vpMaxReads() int {
	if vpTier() == 1 {
		return 4
	}
	return 3
}

func vpFragStreamLen() int {
	if vpTier() == 1 {
		return vpInt("streamlen", 0, 9)
	}
	return vpInt("streamlen", 0, 7)
}

// Unit 4: the decoder's result depends only on the byte stream, not on the fragmentation.
func VP_C13_RequestFragmentIndependent() {
	n := vpFragStreamLen()
	s := vpBytes("stream", n)
	var whole Request
	werr := whole.Decode(bytes.NewReader(s))
	var fr Request
	f := &vpFragReader{data: s, maxReads: vpMaxReads(), maxZeros: 1, endErr: io.EOF}
	ferr := fr.Decode(f)
	vpAssert("same-verdict-under-fragmentation", (werr != nil) == (ferr != nil))
	if werr == nil && ferr == nil {
		vpAssert("same-fields-under-fragmentation", fr == whole)
	}
	vpCover("end")
}

// Unit 4b: a read error instead of EOF at the end never turns a refusal into an acceptance
// and never changes decoded fields.
func VP_C13_RequestFragmentReadError() {
	n := vpFragStreamLen()
	s := vpBytes("stream", n)
	var whole Request
	werr := whole.Decode(bytes.NewReader(s))
	var fr Request
	f := &vpFragReader{data: s, maxReads: 2, maxZeros: 1, endErr: vpErrRead{}}
	ferr := fr.Decode(f)
	if ferr == nil {
		vpAssert("accept-under-read-error-implies-accept", werr == nil)
		if werr == nil {
			vpAssert("same-fields", fr == whole)
		}
	}
	vpCover("end")
}

// ---- responses ----

func refRespText(ok bool, msg string) string {
	t := "NO"
	if ok {
		t = "OK"
	}
	if msg != "" {
		t += " " + msg
	}
	return t
}

var vpRespLens = []int{0, 1, 2, 252, 253, 254, 65532, 65533}

func VP_C13_ResponseEncodeFormat() {
	ok := vpBool("result")
	n := vpRespLens[vpChoose("msglen", len(vpRespLens))]
	msg := vpStr("msg", n)
	r := Response{ok, msg}
	var w vpBuf
	err := r.Encode(&w)
	text := refRespText(ok, msg)
	vpAssert("response-encode-refuses-iff-over-65535", (err != nil) == (len(text) > 65535))
	data, merr := r.Marshal()
	vpAssert("response-marshal-agrees", (merr != nil) == (err != nil))
	if err == nil {
		ref := refEncode(text)
		vpAssert("response-wire-format", bytes.Equal(w.b, ref))
		vpAssert("response-marshal-wire-format", bytes.Equal(data, ref))
	}
	vpCover("end")
}

func VP_C13_ResponseRoundTrip() {
	ok := vpBool("result")
	n := vpRespLens[vpChoose("msglen", 6)]
	msg := vpStr("msg", n)
	r := Response{ok, msg}
	var w vpBuf
	err := r.Encode(&w)
	vpAssert("encodes", err == nil)
	if len(refRespText(ok, msg)) <= 256 {
		var d Response
		derr := d.Decode(bytes.NewReader(w.b))
		vpAssert("response-decodes", derr == nil)
		if derr == nil {
			vpAssert("response-roundtrip", vpAnd(d.Result == ok, d.Message == msg))
		}
	}
	vpCover("end")
}

// arbitrary bytes as a response: decoder vs reference grammar
func VP_C13_ResponseDecodeArbitrary() {
	n := vpInt("streamlen", 0, 8)
	s := vpBytes("stream", n)
	var r Response
	err := r.Unmarshal(s)
	parts, _, ok := refParse(s, 1)
	refOK := false
	refRes := false
	refMsg := ""
	if ok && len(parts[0]) >= 2 {
		t := parts[0]
		if t[0] == 'O' && t[1] == 'K' {
			refOK, refRes = true, true
		} else if t[0] == 'N' && t[1] == 'O' {
			refOK = true
		}
		if len(t) > 3 {
			refMsg = t[3:]
		}
	}
	vpAssert("response-accepts-iff-reference", (err == nil) == refOK)
	if err == nil && refOK {
		vpAssert("response-fields-equal-reference", vpAnd(r.Result == refRes, r.Message == refMsg))
	}
	vpCover("end")
}

// Unit 4c: well-formed requests (plus optional trailing bytes) under arbitrary fragmentation:
// reaches accepted messages, which arbitrary short streams cannot.
func VP_C13_RequestFragmentWellFormed() {
	var l [4]int
	l[0] = vpChoose("loginlen", 3)
	l[1] = vpChoose("pwlen", 3)
	l[2] = vpChoose("servicelen", 2)
	l[3] = vpChoose("realmlen", 2)
	r := vpReq(l)
	s := refEncode(r.Login, r.Password, r.Service, r.Realm)
	s = append(s, vpBytes("trailing", vpChoose("trailinglen", 2))...)
	var fr Request
	f := &vpFragReader{data: s, maxReads: vpMaxReads(), maxZeros: vpTier(), endErr: io.EOF}
	ferr := fr.Decode(f)
	empty := l[0] == 0 || l[1] == 0
	vpAssert("wellformed-verdict-independent-of-fragmentation", (ferr != nil) == empty)
	if ferr == nil {
		vpAssert("wellformed-fields-independent-of-fragmentation", fr == r)
	}
	vpCover("end")
}

// Unit 5: every field at or next to the 256-byte limit *at once* (the largest messages the
// format allows: 4*256 payload bytes + 8 prefix bytes): encoder output, round trip, unmarshal.
func VP_C13_AllFieldsNearLimit() {
	var l [4]int
	for i := 0; i < 4; i++ {
		l[i] = 254 + vpChoose("nearlimit", 3)
	}
	r := vpReq(l)
	var w vpBuf
	err := r.Encode(&w)
	vpAssert("near-limit-encodes", err == nil)
	if err != nil {
		return
	}
	vpAssert("near-limit-wire-format", bytes.Equal(w.b, refEncode(r.Login, r.Password, r.Service, r.Realm)))
	var d Request
	derr := d.Decode(bytes.NewReader(w.b))
	vpAssert("near-limit-decodes", derr == nil)
	if derr == nil {
		vpAssert("near-limit-roundtrip-identical", vpAnd(vpAnd(d.Login == r.Login, d.Password == r.Password), vpAnd(d.Service == r.Service, d.Realm == r.Realm)))
	}
	var u Request
	uerr := u.Unmarshal(w.b)
	vpAssert("near-limit-unmarshals", uerr == nil)
	if uerr == nil {
		vpAssert("near-limit-unmarshal-identical", vpAnd(vpAnd(u.Login == r.Login, u.Password == r.Password), vpAnd(u.Service == r.Service, u.Realm == r.Realm)))
	}
	// the same stream delivered in two reads cut inside the third field
	var fr Request
	f := &vpFragReader{data: w.b, maxReads: 2, maxZeros: 0, endErr: io.EOF, cuts: []int{2 + l[0] + 2 + l[1] + 2 + 100}}
	ferr := fr.Decode(f)
	vpAssert("near-limit-fragmented-decodes", ferr == nil)
	if ferr == nil {
		vpAssert("near-limit-fragmented-identical", fr == d)
	}
	vpCover("end")
}

// Unit 6: the bytes an encoder returned stay what they were: encoding further messages (of
// either kind) afterwards does not change an earlier result (no shared or recycled buffers
// behind returned slices), and each result is the wire format of its own message.
func VP_C13_MarshalResultsAreIndependent() {
	var la, lb [4]int
	for i := 0; i < 4; i++ {
		la[i] = 1 + vpChoose("alen", 2)
		lb[i] = 1 + vpChoose("blen", 2)
	}
	a := Request{vpStr("a-login", la[0]), vpStr("a-password", la[1]), vpStr("a-service", la[2]), vpStr("a-realm", la[3])}
	b := Request{vpStr("b-login", lb[0]), vpStr("b-password", lb[1]), vpStr("b-service", lb[2]), vpStr("b-realm", lb[3])}
	ra := Response{vpBool("a-result"), vpStr("a-msg", vpChoose("a-msglen", 3))}
	rb := Response{vpBool("b-result"), vpStr("b-msg", vpChoose("b-msglen", 3))}
	da, e1 := a.Marshal()
	dra, e2 := ra.Marshal()
	db, e3 := b.Marshal()
	drb, e4 := rb.Marshal()
	vpAssert("marshal-sequence-ok", e1 == nil && e2 == nil && e3 == nil && e4 == nil)
	if e1 != nil || e2 != nil || e3 != nil || e4 != nil {
		return
	}
	vpAssert("earlier-request-bytes-unchanged-by-later-encodes", bytes.Equal(da, refEncode(a.Login, a.Password, a.Service, a.Realm)))
	vpAssert("earlier-response-bytes-unchanged-by-later-encodes", bytes.Equal(dra, refEncode(refRespText(ra.Result, ra.Message))))
	vpAssert("later-request-bytes-are-its-own", bytes.Equal(db, refEncode(b.Login, b.Password, b.Service, b.Realm)))
	vpAssert("later-response-bytes-are-its-own", bytes.Equal(drb, refEncode(refRespText(rb.Result, rb.Message))))
	var ua Request
	vpAssert("earlier-result-still-decodes-to-its-message", ua.Unmarshal(da) == nil && ua == a)
	vpCover("end")
}
