package sasl

// C03 (transport part): the saslauthd frontend hands the login name to the callback exactly as
// the client sent it - whatever bytes follow a valid name (NUL, '/', '.', ...) are still there
// when the store's name check sees it (the agent-side half is VP_C03_FrontendsRejectInvalidNames).

import "io"

func VP_C03_SaslLoginReachesCallbackUnaltered() {
	login := []string{"u", "./u", "../store/u", ""}[vpChoose("stem", 4)] + vpStr("suffix", vpInt("suffixlen", 0, 2))
	pw := vpStr("password", 1)
	stream := refEncode(login, pw, "", "")
	conn := &vpConn{in: &vpFragReader{data: stream, maxReads: 1, endErr: io.EOF}}
	rec := &vpCBRec{}
	s := &Server{cb: func(l, p, service, realm string) (bool, string, error) {
		rec.calls++
		rec.login, rec.password = l, p
		return true, "", nil
	}}
	s.handleConnection(conn)
	vpAssert("callback-called-iff-login-non-empty", (rec.calls == 1) == (len(login) > 0))
	if rec.calls == 1 {
		vpAssert("login-reaches-the-callback-byte-identical", rec.login == login && rec.password == pw)
	}
	vpCover("end")
}
