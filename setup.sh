#!/bin/sh
# builds the gosym engine offline from the module cache
set -e
cd "$(dirname "$0")"
export GOFLAGS=-mod=mod GOPROXY=off GOSUMDB=off GOTOOLCHAIN=local
if [ -d engine ]; then (cd engine && go build -o ../bin/gosym ./cmd/gosym); fi
